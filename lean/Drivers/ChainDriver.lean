import Drivers.Common
import Drivers.OracleD
import Drivers.GovD
import Drivers.BankVmD
import Drivers.ShieldD
import Drivers.StakingD
import Drivers.PayoutD
import Drivers.MintD
import Drivers.UbdD
import Drivers.ReimbD
import Drivers.WasmD
import Drivers.OracleParamsD
import Drivers.ShieldParamsD
import Drivers.GovParamsD
import Drivers.BlockhashD
/-
  Chain driver: reads the trace of the real application (one JSON object per line),
  runs the model on every operation from the *observed* pre-state, compares the
  model's post-state with the observed post-state, and evaluates the monitors on
  every observed state.  Output: one JSON object per finding, then statistics.
-/
open Lean Shentu Drivers

structure DS where
  bh : Shentu.BlockhashD.St := {}
  sys : Sys := default
  hist : Int := 0
  line : Nat := 0
  h : Int := 0
  t : Int := 0
  ledger : Ledger := default
  oracle : Oracle.State := default
  hasOracle : Bool := false
  gov : Gov.State := default
  hasGov : Bool := false
  cert : Cert.State := default
  hasCert : Bool := false
  certUnret : List String := []
  stake : Gov.StakeView := default
  vest : Vesting.Accounts := []
  staked : List (Addr × Int) := []
  accounts : List Addr := []
  hasVest : Bool := false
  cvm : Cvm.State := default
  hasCvm : Bool := false
  stk : StakingD.Obs := default
  hasStk : Bool := false
  view : Staking.View := []          -- C09 ghost: the validator set as consensus has been told
  shield : Shield.State := default
  hasShield : Bool := false
  shieldOutside : Bool := false      -- coins of a denomination the shield model does not cover were seen
  reimbCoins : List (Nat × Coins) := []   -- the recorded reimbursements with every denomination they name
  -- C14 ghost ledger (from observations only)
  dep : List (Addr × Coins) := []
  ret : List (Addr × Coins) := []
  -- C12 ghost: statuses each proposal has been seen in
  seenStatus : List (Nat × List Nat) := []
  stats : List (String × Nat) := []
  nFind : Nat := 0
  seen : List String := []          -- (kind,name) already reported in this history
  nSample : Nat := 0

def addTo (m : List (Addr × Coins)) (a : Addr) (c : Coins) : List (Addr × Coins) :=
  if m.any (·.1 == a) then m.map (fun e => if e.1 == a then (e.1, Coins.add e.2 c) else e) else m ++ [(a, c)]
def getOf (m : List (Addr × Coins)) (a : Addr) : Coins := ((m.find? (·.1 == a)).map (·.2)).getD []

def finding (ds : DS) (kind prop name detail : String) : IO DS := do
  let key := kind ++ "/" ++ name
  if ds.seen.contains key then return { ds with nFind := ds.nFind + 1 }
  let ds := { ds with seen := key :: ds.seen }
  let j := Json.mkObj [("kind", kind), ("prop", prop), ("name", name), ("hist", toString ds.hist), ("line", toString ds.line),
                       ("h", toString ds.h), ("detail", detail)]
  IO.println ("FINDING " ++ j.compress)
  return { ds with nFind := ds.nFind + 1 }

def stat (ds : DS) (k : String) : DS := { ds with stats := bump ds.stats k }

def loadObs (ds : DS) (st : Json) : DS := Id.run do
  let mut ds := ds
  if J.has st "bank" then ds := { ds with ledger := parseLedger (J.get st "bank") }
  if J.has st "oracle" then ds := { ds with oracle := OracleD.parseState (J.get st "oracle"), hasOracle := true }
  if J.has st "gov" then ds := { ds with gov := GovD.parseGov (J.get st "gov"), hasGov := true }
  if J.has st "cert" then ds := { ds with cert := GovD.parseCert (J.get st "cert"), hasCert := true, certUnret := GovD.unretrievable (J.get st "cert") }
  if J.has st "staking" then
    ds := { ds with stake := GovD.parseStake (J.get st "staking"), staked := BankVmD.stakedOf (J.get st "staking") }
    if J.has (J.get st "staking") "vals2" then ds := { ds with stk := StakingD.parse (J.get st "staking"), hasStk := true }
  if J.has st "vesting" then
    let (vs, accts) := BankVmD.parseVesting (J.get st "vesting")
    ds := { ds with vest := vs, accounts := accts, hasVest := true }
  if J.has st "cvm" then ds := { ds with cvm := BankVmD.parseCvm (J.get st "cvm"), hasCvm := true }
  if J.has st "shield" then
    let j := J.get st "shield"
    ds := { ds with shield := ShieldD.parseState j, hasShield := true,
                    shieldOutside := ds.shieldOutside || ShieldD.outsideModel j,
                    reimbCoins := (J.arrOf j "proposalID_reimbursement_pairs").map (fun r =>
                      ((J.intOf r "proposal_id").toNat, J.sdkCoins (J.get (J.get r "reimbursement") "amount"))) }
  return ds

def oracleEnv (ds : DS) : Oracle.Env := { h := ds.h, t := ds.t, bond := "uctk", modAddr := ds.sys.modAddr "oracle" }
/-- the shield environment of a step: the bonded stake the staking hooks computed is read from the observed post-state -/
def shieldEnv (ds : DS) : Shield.Env :=
  let post := ds.shield
  { t := ds.t, bond := "uctk", modAddr := ds.sys.modAddr "shield", bondedPool := ds.sys.modAddr "bonded_tokens_pool",
    bondedAfter := fun a => (Shield.findProvider post a).map (·.bonded) }
def govEnv (ds : DS) (stake : Gov.StakeView) : Gov.Env := { t := ds.t, bond := "uctk", modAddr := ds.sys.modAddr "gov", stake := stake }

/-- the part of the world the models cover -/
structure MW where
  l : Ledger
  o : Oracle.State
  g : Gov.State
  c : Cert.State
  v : Vesting.Accounts := []
  k : Cvm.State := default
  accts : List Addr := []
  sh : Shield.State := default
  skipLedger : Bool := false       -- the step moves coins through SDK modules that are not modelled (staking, distribution)

def proposalOfMsg (m : Json) : Gov.Proposal :=
  { id := 0, kind := J.strOf m "kind", cuCertifier := J.strOf m "certifier", cuAlias := J.strOf m "alias", cuAdd := J.boolOf m "add",
    cuProposer := J.strOf m "contentProposer", clPool := (J.intOf m "pool").toNat, clPurchase := (J.intOf m "purchase").toNat,
    clLoss := (if J.has m "loss" then [("uctk", J.intOf m "loss")] else []), status := 0, isCouncil := false, proposer := "", totalDeposit := [], submitTime := 0,
    depositEnd := 0, votingStart := 0, votingEnd := 0, tally := ⟨0, 0, 0, 0⟩ }

def isModuleAddr (ds : DS) (a : Addr) : Bool := ds.sys.names.any (fun (n, x) => n.startsWith "mod." && x == a)

/-- apply one message of the trace to the model; `none` = message kind not modelled -/
def applyMsg (ds : DS) (stake : Gov.StakeView) (w : MW) (m : Json) : Option (Except Err MW) :=
  let e := oracleEnv ds
  let ge := govEnv ds stake
  let onOracle (r : Except Err (Ledger × Oracle.State)) : Option (Except Err MW) := some (r.map (fun (l, o) => { w with l := l, o := o }))
  let onGov (r : Except Err Gov.World) : Option (Except Err MW) := some (r.map (fun x => { w with l := x.l, g := x.g, c := x.c }))
  let gw : Gov.World := { l := w.l, g := w.g, c := w.c }
  match J.strOf m "t" with
  | "oracle.createOperator" => onOracle (Oracle.createOperator e w.l w.o (J.strOf m "addr") (J.coinsOf m "coll") (J.strOf m "proposer"))
  | "oracle.removeOperator" => onOracle (Oracle.removeOperator e w.l w.o (J.strOf m "addr"))
  | "oracle.addCollateral" => onOracle (Oracle.addCollateral e w.l w.o (J.strOf m "addr") (J.coinsOf m "amt"))
  | "oracle.reduceCollateral" => onOracle (Oracle.reduceCollateral e w.l w.o (J.strOf m "addr") (J.coinsOf m "amt"))
  | "oracle.withdrawReward" => onOracle (Oracle.withdrawReward e w.l w.o (J.strOf m "addr"))
  | "oracle.createTask" => onOracle (Oracle.createTask e w.l w.o (J.strOf m "contract") (J.strOf m "function") (J.coinsOf m "bounty")
                                    (J.strOf m "creator") (J.intOf m "wait") (J.intOf m "valid"))
  | "oracle.respond" => onOracle ((Oracle.respond e w.o (J.strOf m "contract") (J.strOf m "function") (J.intOf m "score") (J.strOf m "op")).map (fun o' => (w.l, o')))
  | "oracle.deleteTask" => onOracle ((Oracle.deleteTask e w.o (J.strOf m "contract") (J.strOf m "function") (J.boolOf m "force") (J.strOf m "deleter")).map (fun o' => (w.l, o')))
  | "gov.submit" =>
    let k := J.strOf m "kind"
    if k == "text" || k == "certifierUpdate" || k == "upgrade" then
      onGov (Gov.submit ge gw (J.strOf m "proposer") (proposalOfMsg m) (J.coinsOf m "deposit"))
    else if k == "claim" && ds.hasShield then
      let se := shieldEnv ds
      let holder := J.strOf m "contentProposer"
      let pool := (J.intOf m "pool").toNat; let purchase := (J.intOf m "purchase").toNat; let loss := J.intOf m "loss"
      let deposit := J.coinsOf m "deposit"
      let council := Gov.isCouncil ge w.c (J.strOf m "proposer")
      -- ShieldClaimProposal.ValidateBasic: the loss is a valid coin amount
      if loss < 0 then some (.error ⟨"basic:claim:invalid-loss"⟩)
      -- msg_server.go SubmitProposal: initial deposit, claim admission, handler dry run, proposal + deposit, lock
      else if Gen.Gov.submitRefused (Coins.amountOf deposit "uctk") (Coins.amountOf w.g.params.minInitial "uctk") council then some (.error ⟨"gov:insufficient-initial-deposit"⟩)
      else match Shield.claimAdmissible w.sh ds.t holder pool purchase loss (Coins.amountOf deposit "uctk") with
      | some x => some (.error ⟨"claim:" ++ x⟩)
      | none =>
        match Shield.createReimbursement { se with bondedAfter := fun _ => none } w.l w.sh w.g.nextId loss holder with
        | .error x => some (.error ⟨"claim-dry-run:" ++ x.kind⟩)
        | .ok _ =>
          match Gov.submit ge gw (J.strOf m "proposer") (proposalOfMsg m) deposit with
          | .error x => some (.error x)
          | .ok x =>
            match Shield.secureCollaterals se w.sh pool holder purchase loss (2 * w.g.params.votingPeriod) with
            | .error y => some (.error y)
            | .ok sh' => some (.ok { w with l := x.l, g := x.g, c := x.c, sh := sh' })
    else none
  | "gov.deposit" =>
    if (w.g.proposals.find? (·.id == (J.intOf m "pid").toNat)).any (·.kind == "claim") && !ds.hasShield then none
    else onGov (Gov.addDeposit ge gw (J.intOf m "pid").toNat (J.strOf m "depositor") (J.coinsOf m "amt"))
  | "gov.vote" => onGov (Gov.vote gw (J.intOf m "pid").toNat (J.strOf m "voter") (J.intOf m "option").toNat)
  | "cert.issue" => some ((Cert.issue w.c (J.strOf m "certifier") (J.strOf m "kind") (J.strOf m "content")).map (fun c' => { w with c := c' }))
  | "cert.revoke" => some ((Cert.revoke w.c (J.strOf m "revoker") (J.intOf m "id").toNat).map (fun c' => { w with c := c' }))
  | "cert.platform" => some ((Cert.certifyPlatform w.c (J.strOf m "certifier") (J.strOf m "pubkey64") (J.strOf m "platform")).map (fun c' => { w with c := c' }))
  | "bank.send" =>
    let src := J.strOf m "from"; let dst := J.strOf m "to"; let amt := J.coinsOf m "amt"
    -- module accounts are blocked recipients (app/app.go ModuleAccountAddrs, tied by ShieldTie.tie_module_accounts_blocked)
    if isModuleAddr ds dst then some (err "bank:blocked-recipient")
    else if Cvm.kindAt w.k dst != "none" then
      some ((Cvm.sendToContract "uctk" w.l w.v w.k src dst amt).map (fun (l, k) => { w with l := l, k := k }))
    else some ((Vesting.send w.l w.v src dst amt).map (fun l => { w with l := l }))
  | "bank.multisend" =>
    let src := J.strOf m "from"
    let outs := (J.arrOf m "outs").map (fun o => match J.arr o with | [a, x] => (J.str a, J.int x) | _ => ("", 0))
    if outs.any (fun o => Cvm.kindAt w.k o.1 != "none") then some (.error ⟨"bank:code-exists"⟩)
    else
      let total : Coins := [("uctk", outs.foldl (fun acc o => acc + o.2) 0)]
      some ((Vesting.canSpend w.l w.v src total).map (fun _ =>
        { w with l := outs.foldl (fun l o => l.credit o.1 [("uctk", o.2)]) (w.l.debit src total) }))
  | "bank.lockedSend" =>
    some ((Vesting.lockedSend w.l w.v (fun a => w.accts.contains a && (Vesting.find w.v a).isNone) (J.strOf m "from") (J.strOf m "to")
            (J.strOf m "unlocker") (J.coinsOf m "amt")).map (fun (l, v) => { w with l := l, v := v }))
  | "auth.unlock" =>
    some ((Vesting.unlock w.v (fun a => w.accts.contains a) (J.strOf m "issuer") (J.strOf m "account") (J.coinsOf m "amt")).map (fun v => { w with v := v }))
  | "cvm.deploy" =>
    -- a failed deployment (the harness reports an address only on success): "a failed transaction changes nothing but the fee"
    if J.strOf m "newAddr" == "" then some (err "cvm:deployment-failed")
    else some ((Cvm.deploy "uctk" w.l w.v w.k (J.strOf m "caller") (J.strOf m "newAddr") (J.strOf m "code") (J.intOf m "value")).map (fun (l, k) => { w with l := l, k := k }))
  | "cvm.call" =>
    let data := J.strOf m "data"
    let w0 := (data.take 64).toString
    let isZero := w0.toList.all (· == '0')
    let target := if data.length ≥ 64 then ((w0.drop 24).toString) else ""
    -- SELFDESTRUCT naming an address without an account: the contract may not create accounts (Burrow's permission model,
    -- outside the Cvm model) and the call fails; the comparison is "a failed call changes nothing"
    if J.strOf m "kind" == "suicideTo" && J.has m "targetExists" && !J.boolOf m "targetExists" then some (err "cvm:beneficiary-has-no-account")
    -- likewise a CALL to an address without an account (a module account that was never used): Burrow wants to create it first
    else if J.strOf m "kind" == "forward" && J.has m "targetExists" && !J.boolOf m "targetExists" then some (err "cvm:target-has-no-account")
    -- module accounts receive coins only through the bank module (which refuses plain sends to them): a value call, an inner
    -- CALL forwarding the value, or a SELFDESTRUCT that would credit one fails as a whole (x/cvm/keeper/state.go UpdateAccount)
    else if isModuleAddr ds (J.strOf m "callee") && J.intOf m "value" > 0 then some (err "cvm:module-account-receives")
    else if J.strOf m "kind" == "forward" && isModuleAddr ds target && J.intOf m "value" > 0 then some (err "cvm:module-account-receives")
    else if J.strOf m "kind" == "suicideTo" && isModuleAddr ds target && w.l.balOf (J.strOf m "callee") "uctk" + J.intOf m "value" > 0 then
      some (err "cvm:module-account-receives")
    else
    some ((Cvm.call "uctk" w.l w.v w.k (J.strOf m "caller") (J.strOf m "callee") (J.intOf m "value") w0 (isZero || data == "") target (data != "")).map
      (fun (l, k) => { w with l := l, k := k }))
  | "shield.deposit" =>
    -- the stake an existing provider's deposit is checked against is recomputed from its delegations (not observable in the
    -- post-state when the deposit is refused): what the delegations are worth in the staking observation before the message
    let e := shieldEnv ds
    let e := if ds.hasStk then { e with bondedAfter := fun a => if a == J.strOf m "from" then some (StakingD.stakeOf ds.stk a) else e.bondedAfter a } else e
    some ((Shield.depositMsg e w.sh (J.strOf m "from") [("uctk", J.intOf m "amt")]).map (fun s => { w with sh := s }))
  | "shield.withdraw" => some ((Shield.withdraw (shieldEnv ds) w.sh (J.strOf m "from") [("uctk", J.intOf m "amt")]).map (fun s => { w with sh := s }))
  | "shield.purchase" =>
    some ((Shield.purchase (shieldEnv ds) w.l w.sh (J.intOf m "pool").toNat [("uctk", J.intOf m "amt")] (J.strOf m "from") false).map (fun (l, s) => { w with l := l, sh := s }))
  | "shield.stakeForShield" =>
    some ((Shield.purchase (shieldEnv ds) w.l w.sh (J.intOf m "pool").toNat [("uctk", J.intOf m "amt")] (J.strOf m "from") true).map (fun (l, s) => { w with l := l, sh := s }))
  | "shield.unstake" => some ((Shield.unstake (shieldEnv ds) w.sh (J.intOf m "pool").toNat (J.strOf m "from") [("uctk", J.intOf m "amt")]).map (fun s => { w with sh := s }))
  | "shield.withdrawRewards" => some ((Shield.withdrawRewards (shieldEnv ds) w.l w.sh (J.strOf m "from")).map (fun (l, s) => { w with l := l, sh := s }))
  | "shield.withdrawReimbursement" =>
    some ((Shield.withdrawReimbursement (shieldEnv ds) w.l w.sh (J.intOf m "pid").toNat (J.strOf m "from")).map (fun (l, s) => { w with l := l, sh := s }))
  | "shield.createPool" =>
    some ((Shield.createPool (shieldEnv ds) w.l w.sh (J.strOf m "from") [("uctk", J.intOf m "shield")] [("uctk", J.intOf m "fees")] (J.strOf m "sponsor")
            (J.strOf m "sponsorAddr") (J.intOf m "limit")).map (fun (l, s) => { w with l := l, sh := s }))
  | "shield.updatePool" =>
    some ((Shield.updatePool (shieldEnv ds) w.l w.sh (J.strOf m "from") (J.intOf m "pool").toNat [("uctk", J.intOf m "shield")] [("uctk", J.intOf m "fees")]
            (J.intOf m "limit")).map (fun (l, s) => { w with l := l, sh := s }))
  | "shield.pausePool" => some ((Shield.pausePool w.sh (J.strOf m "from") (J.intOf m "pool").toNat false).map (fun s => { w with sh := s }))
  | "shield.resumePool" => some ((Shield.pausePool w.sh (J.strOf m "from") (J.intOf m "pool").toNat true).map (fun s => { w with sh := s }))
  | "shield.updateSponsor" =>
    some ((Shield.updateSponsor w.sh (J.strOf m "from") (J.intOf m "pool").toNat (J.strOf m "sponsor") (J.strOf m "sponsorAddr")).map (fun s => { w with sh := s }))
  | "staking.delegate" | "staking.undelegate" =>
    -- the staking module itself is not modelled; its hooks into shield are (the coins move through staking and distribution)
    if ds.hasShield then some ((Shield.stakingChanged (shieldEnv ds) w.sh (J.strOf m "del")).map (fun s => { w with sh := s, skipLedger := true }))
    else none
  | _ => none

def applyMsgs (ds : DS) (stake : Gov.StakeView) : List Json → MW → Option (Except Err MW)
  | [], w => some (.ok w)
  | m :: ms, w =>
    match applyMsg ds stake w m with
    | none => none
    | some (.error x) => some (.error x)
    | some (.ok w') => applyMsgs ds stake ms w'

def balDiffs (model impl : Ledger) (skip : List Addr) : List String :=
  let accts := (model.accounts ++ impl.accounts).eraseDups.filter (fun a => !skip.contains a)
  accts.filterMap (fun a => if Coins.beq (model.bal a) (impl.bal a) then none
    else some s!"bal[{a}]:model={Coins.toStr (model.bal a)},impl={Coins.toStr (impl.bal a)}")

def propOfKind (kind : String) : String :=
  if kind.startsWith "oracle.createTask" || kind.startsWith "oracle.respond" || kind.startsWith "oracle.deleteTask" then "C15"
  else if kind.startsWith "oracle." then "C14"
  else if kind.startsWith "gov.deposit" then "C11"
  else if kind.startsWith "gov.submit" then "C11,C12,C05"
  else if kind.startsWith "gov." then "C12"
  else if kind.startsWith "cert." then "C13"
  else if kind.startsWith "shield.deposit" || kind.startsWith "shield.purchase" || kind.startsWith "shield.stake" || kind.startsWith "staking." then "C06"
  else if kind.startsWith "shield.withdrawReimbursement" then "C04"
  else if kind.startsWith "shield.withdrawRewards" || kind.startsWith "shield.unstake" then "C02"
  else if kind.startsWith "shield.withdraw" then "C07"
  else if kind.startsWith "shield." then "C06,C03"
  else if kind.startsWith "cvm." || kind.startsWith "failed:cvm." then "C18"
  else if kind.startsWith "bank.lockedSend" || kind.startsWith "auth." then "C19"
  else "C01"

/-- compare the model's world with the observed one; one finding per differing fact -/
def compareWorld (ds : DS) (tag : String) (w : MW) (skipAccts : List Addr) : IO DS := do
  let mut ds := ds
  if ds.hasOracle then
    for x in OracleD.diffFacts (OracleD.facts w.o) (OracleD.facts ds.oracle) do
      ds ← finding ds "diverge" (OracleD.propsOfFact x) s!"state:{tag}" x
  if ds.hasGov then
    for x in GovD.diffFacts (GovD.govFacts w.g) (GovD.govFacts ds.gov) do
      ds ← finding ds "diverge" (GovD.propsOfGovFact x) s!"state:{tag}" x
  if ds.hasCert then
    for x in GovD.diffFacts (GovD.certFacts w.c) (GovD.certFacts ds.cert) do
      ds ← finding ds "diverge" "C13" s!"state:{tag}" x
  if ds.hasVest then
    for x in BankVmD.diffFacts (BankVmD.vestingFacts w.v) (BankVmD.vestingFacts ds.vest) do
      ds ← finding ds "diverge" "C19" s!"state:{tag}" x
  if ds.hasCvm then
    for x in BankVmD.diffFacts (BankVmD.cvmFacts w.k) (BankVmD.cvmFacts ds.cvm) do
      ds ← finding ds "diverge" "C18" s!"state:{tag}" x
  if ds.hasShield && !ds.shieldOutside then
    for x in ShieldD.diffFacts' (ShieldD.facts w.sh) (ShieldD.facts ds.shield) do
      ds ← finding ds "diverge" (ShieldD.propsOfFact x) s!"state:{tag}" x
  if !w.skipLedger then
    for x in balDiffs w.l ds.ledger skipAccts do
      ds ← finding ds "diverge" (propOfKind tag ++ ",C01") s!"balance:{tag}" x
  return ds

def noteStatuses (ds : DS) : DS :=
  { ds with seenStatus := ds.gov.proposals.foldl (fun acc p =>
      if acc.any (·.1 == p.id) then acc.map (fun e => if e.1 == p.id && !e.2.contains p.status then (e.1, e.2 ++ [p.status]) else e)
      else acc ++ [(p.id, [p.status])]) ds.seenStatus }

/-- monitors evaluated on every observed state -/
def runMonitors (ds : DS) (afterBegin boundary : Bool) : IO DS := do
  let mut ds := ds
  if ds.hasOracle then
    let s := ds.oracle
    ds := stat ds "mon.evaluated"
    if !OracleD.monTotalIsSum s then
      ds ← finding ds "monitor" "C14" "total_is_sum" s!"total={Coins.toStr s.total} sum={Coins.toStr (OracleD.sumColl s)}"
    let mb := ds.ledger.bal (ds.sys.modAddr "oracle")
    if !OracleD.monFunded mb s then
      ds ← finding ds "monitor" "C14" "funded" s!"modbal={Coins.toStr mb} total={Coins.toStr s.total} pending={Coins.toStr (OracleD.sumPending s)} rewards={Coins.toStr (OracleD.sumRewards s)}"
    if afterBegin && !OracleD.monNoOverdue ds.h s then
      ds ← finding ds "monitor" "C14" "no_overdue" s!"h={ds.h} wds={String.intercalate ";" (s.wds.map OracleD.showWd)}"
    if !OracleD.monResponsesValid s then
      ds ← finding ds "monitor" "C15" "responses_valid" (String.intercalate ";" (s.tasks.map OracleD.showTask))
    for (a, d) in ds.dep do
      let coll := ((s.ops.find? (·.addr == a)).map (·.coll)).getD []
      let pend := (s.wds.filter (·.addr == a)).foldl (fun acc w => Coins.add acc w.amt) []
      let rhs := Coins.add (Coins.add coll pend) (getOf ds.ret a)
      if !Coins.beq d rhs then
        ds ← finding ds "monitor" "C14" "collateral_conserved" s!"acct={a} deposited={Coins.toStr d} collateral={Coins.toStr coll} pending={Coins.toStr pend} returned={Coins.toStr (getOf ds.ret a)}"
  if ds.hasGov then
    ds := stat ds "mon.evaluated"
    let g := ds.gov
    let mb := ds.ledger.bal (ds.sys.modAddr "gov")
    if boundary && !GovD.monEscrowExact mb g then
      ds ← finding ds "monitor" "C11" "escrow_exact" s!"modbal={Coins.toStr mb} owed={Coins.toStr (GovD.escrowOwed g)}"
    if boundary then
      for x in GovD.monNoOrphanDeposit g do ds ← finding ds "monitor" "C11" "no_deposit_after_end" x
    for x in GovD.monDepositSum g do ds ← finding ds "monitor" "C11" "deposit_records_sum" x
  if ds.hasShield && boundary then
    ds := stat ds "mon.shield.boundary"
    let mb := ds.ledger.balOf (ds.sys.modAddr "shield") "uctk"
    -- C02 / C04 in the denominations the shield model does not cover: whatever a recorded reimbursement names must be in the
    -- module account (the model's identity covers the bond denomination; nothing is ever collected in any other)
    let denoms := ((ds.reimbCoins.map (fun r => r.2.map (·.1))).foldl (· ++ ·) []).eraseDups.filter (· != "uctk")
    for d in denoms do
      let owed := ds.reimbCoins.foldl (fun acc r => acc + Coins.amountOf r.2 d) 0
      let held := ds.ledger.balOf (ds.sys.modAddr "shield") d
      if owed > held then
        ds ← finding ds "monitor" "C02,C04" "reimbursements_funded_in_every_denomination" s!"recorded reimbursements name {owed}{d}, the module account holds {held}{d} (nothing is collected from providers in that denomination): {ds.reimbCoins.map (fun r => (r.1, Coins.toStr r.2))}"
    if !ds.shieldOutside then
      if !Shield.fundInvB mb ds.shield then
        let s := ds.shield
        ds ← finding ds "monitor" "C02" "module_exactly_funded" s!"module balance {mb}uctk; owes remaining {s.remaining.raw}e-18 + rewards {Shield.sumRewards s}e-18 + block fees {s.blockFees.raw}e-18 + stakes {Shield.sumStakes s} + reimbursements {Shield.sumReimbs s}"
    for x in Shield.booksViolations ds.shield do ds ← finding ds "monitor" "C03" "books_consistent" x
  -- C01: balances add up to the recorded supply, in every denomination
  ds := stat ds "mon.c01.ledger"
  if !ds.ledger.invB then
    let bad := (ds.ledger.denomsAll.filter (fun d => ds.ledger.total d != Coins.amountOf ds.ledger.supply d)).map (fun d =>
      s!"{d}: balances {ds.ledger.total d} supply {Coins.amountOf ds.ledger.supply d}")
    ds ← finding ds "monitor" "C01" "balances_equal_supply" (String.intercalate "; " bad)
  if ds.hasVest then
    for x in BankVmD.monLockedAccountedFor "uctk" ds.ledger ds.vest ds.staked do ds ← finding ds "monitor" "C19" "locked_coins_present" x
    for x in BankVmD.monVestedLeOriginal ds.vest do ds ← finding ds "monitor" "C19" "unlocked_le_locked" x
  if ds.hasCert then
    let c := ds.cert
    for x in GovD.monAliasUnique c do ds ← finding ds "monitor" "C13" "alias_unique" x
    for x in GovD.monAliasIndex c do ds ← finding ds "monitor" "C13" "alias_unique" x
    if !GovD.monIdsUnique c then ds ← finding ds "monitor" "C13" "fresh_id" (String.intercalate ";" (GovD.certFacts c))
    for x in ds.certUnret do ds ← finding ds "monitor" "C13" "certificate_retrievable" x
  return ds

/-- transition monitors of gov/cert that hold for every kind of step -/
def transitionMonitors (ds : DS) (preG : Gov.State) (preC : Cert.State) (isEnd : Bool) : IO DS := do
  let mut ds := ds
  if ds.hasGov then
    for x in GovD.monStatusForward preG ds.gov do ds ← finding ds "monitor" "C12" "status_forward" x
    for x in GovD.monRouting preG ds.gov do ds ← finding ds "monitor" "C12" "round_routing" x
    for x in GovD.monPassPath preG ds.gov do ds ← finding ds "monitor" "C12" "pass_needs_rounds" x
    -- upgrades and claims that pass must have been seen in the certifier round as well
    for p in ds.gov.proposals do
      let before := ((preG.proposals.find? (·.id == p.id)).map (·.status)).getD 0
      if p.status == 4 && before != 4 && (p.kind == "upgrade" || p.kind == "claim") then
        let seen := ((ds.seenStatus.find? (·.1 == p.id)).map (·.2)).getD []
        if !(seen.contains 2 && seen.contains 3) then
          ds ← finding ds "monitor" "C12" "pass_needs_rounds" s!"passed-without-both-rounds:{p.id}:{p.kind}:seen={seen}"
  if ds.hasCert then
    -- the council changes only when a certifier-update proposal passes (in an EndBlock)
    if GovD.certifierSet preC != GovD.certifierSet ds.cert then
      let passedNow := ds.gov.proposals.filter (fun p => p.kind == "certifierUpdate" && p.status == 4 &&
        ((preG.proposals.find? (·.id == p.id)).map (·.status)).getD 0 != 4)
      if !isEnd || passedNow.isEmpty then
        ds ← finding ds "monitor" "C13" "council_changes_only_by_governance" s!"before={GovD.certifierSet preC} after={GovD.certifierSet ds.cert}"
      else
        ds := stat ds "sit.c13.council_changed"
        -- every change must be the content of a proposal that passed now
        let added := ds.cert.certifiers.filter (fun x => !(preC.certifiers.any (·.addr == x.addr)))
        let removed := preC.certifiers.filter (fun x => !(ds.cert.certifiers.any (·.addr == x.addr)))
        for x in added do
          if !(passedNow.any (fun p => p.cuAdd && p.cuCertifier == x.addr && p.cuAlias == x.alias)) then
            ds ← finding ds "monitor" "C13" "council_changes_only_by_governance" s!"added-without-proposal:{x.addr}|{x.alias}"
        for x in removed do
          if !(passedNow.any (fun p => !p.cuAdd && p.cuCertifier == x.addr)) then
            ds ← finding ds "monitor" "C13" "council_changes_only_by_governance" s!"removed-without-proposal:{x.addr}"
    if !preC.certifiers.isEmpty && ds.cert.certifiers.isEmpty then
      ds ← finding ds "monitor" "C13" "council_never_empty" s!"before={GovD.certifierSet preC}"
  return noteStatuses ds

def handleTx (ds : DS) (j : Json) : IO DS := do
  let pre : MW := { l := ds.ledger, o := ds.oracle, g := ds.gov, c := ds.cert, v := ds.vest, k := ds.cvm, accts := ds.accounts, sh := ds.shield }
  let preStake := ds.stake
  let preStk := ds.stk
  let signer := J.strOf j "signerAddr"
  let fee : Coins := if J.intOf j "fee" > 0 then [("uctk", J.intOf j "fee")] else []
  let code := J.intOf j "code"
  let msgs := J.arrOf j "m"
  let kind := String.intercalate "+" (msgs.map (J.strOf · "t"))
  let mut ds := loadObs ds (J.get j "st")
  ds := stat ds s!"tx.{kind}.{if code == 0 then "ok" else "fail"}"
  -- ante: fee deduction (from spendable coins; an account that does not exist or cannot pay fails before any message runs)
  let lFee := pre.l.move signer (ds.sys.modAddr "fee_collector") fee
  let anteOk := match Vesting.canSpend pre.l pre.v signer fee with | .ok _ => true | .error _ => false
  let anteOk := anteOk && (!ds.hasVest || pre.accts.contains signer)
  let r0 : Option (Except Err MW) := if anteOk then applyMsgs ds preStake msgs { pre with l := lFee } else some (.error ⟨"basic:ante"⟩)
  -- the staking module is not modelled: whether its own message is accepted is taken from the implementation
  let r0 : Option (Except Err MW) := match r0 with
    | some (.ok _) =>
      if ds.hasShield && kind.startsWith "staking." && code != 0 then
        -- refused by the message's own ValidateBasic (an amount of zero): baseapp stops before the ante handler, no fee (gasWanted = 0)
        if J.intOf j "gasWanted" == 0 then some (.error ⟨"basic:staking"⟩) else some (.error ⟨"staking:refused"⟩)
      else r0
    | _ => r0
  -- the dry run of the claim handler at submission goes through the staking store; a panic there is a failed transaction the model cannot foresee
  let r0 : Option (Except Err MW) := match r0 with
    | some (.ok _) => if kind == "gov.submit" && code != 0 && ((J.strOf j "log").splitOn "panic").length > 1 && msgs.any (fun m => J.strOf m "kind" == "claim")
                      then some (.error ⟨"claim-dry-run:staking"⟩) else r0
    | _ => r0
  match r0 with
  | none => ds := stat ds "tx.unmodelled"
  | some r =>
    ds := stat ds "tx.validated"
    match r with
    | .error x =>
      if code == 0 then
        ds ← finding ds "diverge" (propOfKind kind) s!"result:{kind}" s!"model=fail({x.kind}) impl=ok {(Json.arr msgs.toArray).compress}"
      else
        -- a failed transaction changes nothing but the fee (and not even that when ValidateBasic rejects it)
        ds ← compareWorld ds s!"failed:{kind}" (if x.isBasic then pre else { pre with l := lFee }) []
    | .ok w' =>
      if code != 0 then
        ds ← finding ds "diverge" (propOfKind kind) s!"result:{kind}" s!"model=ok impl=fail(code={code},log={J.strOf j "log"}) {(Json.arr msgs.toArray).compress}"
      else
        ds ← compareWorld ds kind w' []
  if ds.nSample < 3 && code == 0 then
    IO.println ("SAMPLE " ++ (Json.mkObj [("op", Json.arr msgs.toArray), ("signer", J.get j "signer"), ("h", J.get j "h"), ("code", J.get j "code")]).compress)
    ds := { ds with nSample := ds.nSample + 1 }
  if ds.hasOracle then
    for x in OracleD.monStatusChanges pre.o ds.oracle false ds.h do
      ds ← finding ds "monitor" "C15" "aggregated_once_at_closing" x
  if code == 0 then
    for m in msgs do
      match J.strOf m "t" with
      | "oracle.respond" =>
        ds := stat ds "mon.c15.respond"
        if !OracleD.monRespondAccepted pre.o ds.h (J.strOf m "contract") (J.strOf m "function") (J.intOf m "score") (J.strOf m "op") then
          ds ← finding ds "monitor" "C15" "response_accepted_wrongly" (m.compress)
      | "oracle.deleteTask" =>
        ds := stat ds "mon.c15.delete"
        if !OracleD.monDeleteAccepted pre.o ds.h ds.t (J.strOf m "contract") (J.strOf m "function") (J.boolOf m "force") (J.strOf m "deleter") then
          ds ← finding ds "monitor" "C15" "task_removed_wrongly" (m.compress)
      | "oracle.createOperator" => ds := { ds with dep := addTo ds.dep (J.strOf m "addr") (J.coinsOf m "coll") }
      | "oracle.addCollateral" => ds := { ds with dep := addTo ds.dep (J.strOf m "addr") (J.coinsOf m "amt") }
      | "gov.vote" =>
        ds := stat ds "mon.c12.vote"
        match GovD.monVoteAccepted pre.g pre.c (J.intOf m "pid").toNat (J.strOf m "voter") (J.intOf m "option").toNat with
        | some x => ds ← finding ds "monitor" "C12" "vote_eligibility" (x ++ " " ++ m.compress)
        | none => pure ()
      | "gov.deposit" =>
        -- the depositor paid exactly the amount into escrow
        let amt := J.coinsOf m "amt"
        let d := J.strOf m "depositor"
        let paid := Coins.sub (Coins.sub (pre.l.bal d) (ds.ledger.bal d)) (if d == signer then fee else [])
        if !Coins.beq paid amt then ds ← finding ds "monitor" "C11" "deposit_escrowed" s!"depositor paid {Coins.toStr paid} for a deposit of {Coins.toStr amt}"
      | "cert.issue" =>
        ds := stat ds "mon.c13.issue"
        if !Cert.isCertifier pre.c signer then ds ← finding ds "monitor" "C13" "only_certifiers_certify" s!"issued by non-certifier {signer}"
        let fresh := ds.cert.certs.filter (fun x => !(pre.c.certs.any (·.id == x.id)))
        if fresh.length != 1 || fresh.any (fun x => x.id < pre.c.nextId) || ds.cert.nextId ≤ pre.c.nextId then
          ds ← finding ds "monitor" "C13" "fresh_id" s!"nextId {pre.c.nextId}->{ds.cert.nextId} new={fresh.map (·.id)}"
      | "cert.platform" =>
        if !Cert.isCertifier pre.c signer then ds ← finding ds "monitor" "C13" "only_certifiers_certify" s!"platform certified by non-certifier {signer}"
      | "shield.purchase" | "shield.stakeForShield" =>
        ds := stat ds "mon.c06.purchase"
        let lockedNow : Int := if ds.hasGov then (ds.gov.proposals.filter (fun p => p.kind == "claim" && (p.status == 1 || p.status == 2 || p.status == 3))).foldl (fun acc p => acc + Coins.amountOf p.clLoss "uctk") 0 else 0
        for x in ShieldD.monPurchaseAccepted pre.sh ds.shield (J.intOf m "pool").toNat (J.intOf m "amt") true lockedNow do ds ← finding ds "monitor" "C06" "purchase_within_limits" x
      | "shield.createPool" =>
        ds := stat ds "mon.c06.admin_purchase"
        let pid := pre.sh.nextPool
        for x in ShieldD.monPurchaseAccepted { pre.sh with pools := pre.sh.pools ++ [{ id := pid, shield := 0, limit := J.intOf m "limit", active := true, sponsor := "", sponsorAddr := "" }] }
            ds.shield pid (J.intOf m "shield") false do ds ← finding ds "monitor" "C06" "purchase_within_limits" x
      | "shield.updatePool" =>
        if J.intOf m "shield" > 0 then
          ds := stat ds "mon.c06.admin_purchase"
          for x in ShieldD.monPurchaseAccepted pre.sh ds.shield (J.intOf m "pool").toNat (J.intOf m "shield") false do ds ← finding ds "monitor" "C06" "purchase_within_limits" x
      | "shield.deposit" =>
        ds := stat ds "mon.c06.deposit"
        for x in ShieldD.monDepositAccepted ds.shield (J.strOf m "from") do ds ← finding ds "monitor" "C06" "collateral_backed_by_stake" x
        -- ... and within what the provider's delegations are really worth now (a slash changes that without any staking hook:
        -- the recorded stake of an existing provider may be stale)
        if ds.hasStk then
          match Shield.findProvider ds.shield (J.strOf m "from") with
          | some p =>
            let real := StakingD.stakeOf ds.stk p.addr
            let slack : Int := (ds.stk.dels.filter (·.1 == p.addr)).length + 1
            if (Shield.findProvider pre.sh p.addr).isSome then ds := stat ds "sit.c06.deposit_by_existing_provider"
            if p.bonded > real + slack then ds := stat ds "sit.c06.deposit_with_stale_recorded_stake"
            if p.collateral - p.withdrawing > real + slack then
              ds ← finding ds "monitor" "C06" "deposit_within_real_stake" s!"provider {p.addr}: deposit accepted; collateral {p.collateral} - withdrawing {p.withdrawing} exceeds the bonded stake {real} (recorded stake {p.bonded})"
          | none => pure ()
        if ds.hasStk && (Shield.findProvider pre.sh (J.strOf m "from")).isNone then
          match Shield.findProvider ds.shield (J.strOf m "from") with
          | some p =>
            let want := StakingD.stakeOf ds.stk p.addr
            if (p.bonded - want).natAbs > 1 then
              ds ← finding ds "monitor" "C06" "recorded_stake_is_delegated_tokens" s!"new provider {p.addr}: recorded bonded stake {p.bonded}, delegations are worth {want}"
          | none => pure ()
      | "staking.delegate" | "staking.undelegate" | "staking.redelegate" =>
        ds := stat ds "mon.c06.staking_action"
        for x in ShieldD.monBackedAfterStaking ds.shield (J.strOf m "del") do ds ← finding ds "monitor" "C06" "collateral_backed_by_stake" x
        -- the stake the module records for the provider is what its delegations are worth now
        if ds.hasStk then
          match Shield.findProvider ds.shield (J.strOf m "del") with
          | some p =>
            let want := StakingD.stakeOf ds.stk p.addr
            -- (the hook runs before the validator's totals are updated: each delegation may round differently by one unit)
            let slack : Int := (ds.stk.dels.filter (·.1 == p.addr)).length + 1
            if (p.bonded - want).natAbs > slack.toNat then
              ds ← finding ds "monitor" "C06" "recorded_stake_is_delegated_tokens" s!"provider {p.addr}: recorded bonded stake {p.bonded}, delegations are worth {want} after its {J.strOf m "t"}"
          | none => pure ()
      | "shield.withdraw" =>
        ds := stat ds "mon.c07.request"
        for x in ShieldD.monWithdrawAccepted pre.sh (J.strOf m "from") (J.intOf m "amt") do ds ← finding ds "monitor" "C07" "request_within_collateral" x
      | "shield.withdrawReimbursement" =>
        ds := stat ds "mon.c04.withdraw_reimbursement"
        let a := J.strOf m "from"
        match pre.sh.reimbs.find? (·.pid == (J.intOf m "pid").toNat) with
        | none => ds ← finding ds "monitor" "C04" "reimbursement_withdrawn_once" s!"withdrawal accepted without a record: {m.compress}"
        | some r =>
          if r.beneficiary != a then ds ← finding ds "monitor" "C04" "reimbursement_beneficiary_only" s!"{a} withdrew the reimbursement of {r.beneficiary}"
          if r.payoutTime > ds.t then ds ← finding ds "monitor" "C04" "reimbursement_after_payout_period" s!"withdrawn at {ds.t}, payout time {r.payoutTime}"
          let got := Coins.amountOf (Coins.sub (ds.ledger.bal a) (pre.l.bal a)) "uctk" + (if a == signer then J.intOf j "fee" else 0)
          if got != r.amount then ds ← finding ds "monitor" "C04" "reimbursement_exact" s!"beneficiary received {got}, approved {r.amount}"
          if ds.shield.reimbs.any (·.pid == r.pid) then ds ← finding ds "monitor" "C04" "reimbursement_withdrawn_once" s!"record {r.pid} still there after withdrawal"
      | "gov.submit" =>
        if J.strOf m "kind" == "claim" && ds.hasShield then
          ds := stat ds "mon.c05.claim_accepted"
          let holder := J.strOf m "contentProposer"
          let pool := (J.intOf m "pool").toNat; let purchase := (J.intOf m "purchase").toNat; let loss := J.intOf m "loss"
          match Shield.claimAdmissible pre.sh ds.t holder pool purchase loss (Coins.amountOf (J.coinsOf m "deposit") "uctk") with
          | some x => ds ← finding ds "monitor" "C05" "claim_admission" s!"accepted although {x}: {m.compress}"
          | none => pure ()
          for x in ShieldD.monClaimLock pre.sh ds.shield holder pool purchase loss do ds ← finding ds "monitor" "C05" "claim_lock_exact" x
          if ds.hasStk then
            ds := stat ds "mon.c09.claim_secures_stake"
            let endTime := ds.t + 2 * pre.g.params.votingPeriod
            for x in ShieldD.monClaimSecuresStake pre.sh ds.shield loss endTime (ds.stk.ubds.map (fun u => (u.del, u.time, u.balance))) do
              ds ← finding ds "monitor" "C09,C06" "claim_lock_holds_the_stake" x
          for p in pre.sh.providers do
            for x in ShieldD.monOnlyPostponed pre.sh ds.shield p.addr do ds ← finding ds "monitor" "C07" "claims_only_postpone" x
      | "cert.revoke" =>
        ds := stat ds "mon.c13.revoke"
        if !Cert.isCertifier pre.c signer then ds ← finding ds "monitor" "C13" "only_certifiers_certify" s!"revoked by non-certifier {signer}"
      | _ => pure ()
  if ds.hasCert then
    -- certificates stay retrievable (unchanged) unless this transaction revoked them
    let revoked := if code == 0 then msgs.filterMap (fun m => if J.strOf m "t" == "cert.revoke" then some (J.intOf m "id").toNat else none) else []
    for x in pre.c.certs do
      if !(revoked.contains x.id) && !(ds.cert.certs.any (fun y => y == x)) then
        ds ← finding ds "monitor" "C13" "certificate_retrievable" s!"certificate {x.id} ({x.kind},{x.content},{x.certifier}) disappeared or changed"
  if ds.hasShield then
    for x in ShieldD.monNoReleaseInTx pre.sh ds.shield do ds ← finding ds "monitor" "C07" "released_only_by_queue" x
    for x in ShieldD.monNewWithdraws pre.sh ds.shield ds.t do ds ← finding ds "monitor" "C07" "full_period_before_release" x
    -- reimbursements appear only when a claim passes (in an end-blocker) and disappear only by the beneficiary's withdrawal
    for r in ds.shield.reimbs do
      if !(pre.sh.reimbs.any (· == r)) then ds ← finding ds "monitor" "C04" "reimbursement_only_for_passed_claim" s!"reimbursement {r.pid} of {r.amount} for {r.beneficiary} appeared in a transaction"
    for r in pre.sh.reimbs do
      if !(ds.shield.reimbs.any (· == r)) && !(code == 0 && msgs.any (fun m => J.strOf m "t" == "shield.withdrawReimbursement" && (J.intOf m "pid").toNat == r.pid)) then
        ds ← finding ds "monitor" "C04" "reimbursement_withdrawn_once" s!"reimbursement {r.pid} disappeared without a withdrawal"
  if ds.hasStk then
    -- C09: an unbonding entry is created with the full unbonding time and no entry leaves the queue in a transaction
    for u in ds.stk.ubds do
      if !(preStk.ubds.any (· == u)) && !(preStk.ubds.any (fun x => StakingD.ubdKey x == StakingD.ubdKey u)) && u.time < ds.t + preStk.unbondingNs then
        -- (entries of one delegator/validator/height are merged by the SDK: a grown balance is a new request)
        if !(preStk.ubds.any (fun x => x.del == u.del && x.val == u.val && x.height == u.height && x.time == u.time)) then
          ds ← finding ds "monitor" "C09" "unbonding_waits_full_time" s!"entry {StakingD.ubdKey u} created at {ds.t} completes at {u.time} (unbonding time {preStk.unbondingNs})"
    for u in preStk.ubds do
      if !(ds.stk.ubds.any (fun x => x.del == u.del && x.val == u.val && x.height == u.height && x.time ≥ u.time && x.balance ≥ u.balance)) then
        ds ← finding ds "monitor" "C09" "unbonding_never_early" s!"entry {StakingD.ubdKey u} due at {u.time} left the queue (or shrank, or moved earlier) in a transaction at {ds.t}"
  if ds.hasVest then
    for x in BankVmD.monUnlockerImmutable pre.v ds.vest do ds ← finding ds "monitor" "C19" "unlocker_immutable" x
    for x in BankVmD.monMonotone pre.v ds.vest do ds ← finding ds "monitor" "C19" "vesting_monotone" x
    -- the unlocked total changes only by an unlock signed by the designated unlocker (or a shield payout)
    for m0 in pre.v do
      match ds.vest.find? (·.addr == m0.addr) with
      | some m1 =>
        if !(Coins.beq m0.vested m1.vested) then
          let okUnlock := code == 0 && msgs.any (fun m => J.strOf m "t" == "auth.unlock" && J.strOf m "account" == m0.addr && J.strOf m "issuer" == m0.unlocker && signer == m0.unlocker)
          if !okUnlock then ds ← finding ds "monitor" "C19" "only_unlocker_unlocks" s!"{m0.addr}: vested {Coins.toStr m0.vested}->{Coins.toStr m1.vested} by {kind} signed {signer}"
      | none => pure ()
  if ds.hasCvm then
    for m in msgs do
      -- C17: a plain bank send to a contract runs the contract's code: an endless loop uses up the whole allowance there too
      if J.strOf m "t" == "bank.send" && J.strOf m "toKind" == "loop" && code != 0 && msgs.length == 1 &&
          (((J.strOf j "log").splitOn "out of gas").length > 1 || ((J.strOf j "log").splitOn "InsufficientGas").length > 1) then
        ds := stat ds "mon.c17.send_to_loop_charged"
        if J.intOf j "gasUsed" * 10 < J.intOf j "gasWanted" * 9 then
          ds ← finding ds "monitor" "C17" "failed_execution_is_charged" s!"a bank send to a contract that ran out of gas in an endless loop was charged {J.intOf j "gasUsed"} of {J.intOf j "gasWanted"} ({J.strOf j "log"})"
      -- C17: work done by a constructor is charged even when the result cannot be committed
      if J.strOf m "t" == "cvm.deploy" && J.has m "minGas" && msgs.length == 1 &&
          (code == 0 || ((J.strOf j "log").splitOn "failed to execute message").length > 1) then   -- the message ran (not refused by the ante handler)
        -- `Tx` refuses the deployment BEFORE the constructor runs when the address derived for the new contract already holds
        -- an account (DuplicateAddress from `engine.CreateAccount`; the bankvm histories pre-fund such addresses): no work, no charge
        let neverRan := code != 0 && ((J.strOf j "log").splitOn "DuplicateAddress").length > 1
        ds := stat ds s!"sit.c17.deploy_work_then_selfdestruct.{if code == 0 then "ok" else if neverRan then "address_taken" else "fail"}"
        if !neverRan && J.intOf j "gasUsed" < J.intOf m "minGas" then
          ds ← finding ds "monitor" "C17" "execution_is_charged_when_commit_fails" s!"a constructor that ran at least {J.intOf m "minGas"} instructions and then destroyed its contract was charged {J.intOf j "gasUsed"} (code {code}, {J.strOf j "log"})"
      if J.strOf m "t" == "cvm.call" then
        ds := stat ds s!"sit.c18.call.{J.strOf m "kind"}.{if code == 0 then "ok" else "fail"}"
        -- C17: the gas an execution used is charged to the transaction whether or not it succeeds: an endless loop uses up the
        -- whole allowance, so the sender pays (nearly) the whole limit
        if J.strOf m "kind" == "loop" && code != 0 && msgs.length == 1 && ((J.strOf j "log").splitOn "InsufficientGas").length > 1 then
          ds := stat ds "mon.c17.loop_charged"
          if J.intOf j "gasUsed" * 10 < J.intOf j "gasWanted" * 9 then
            ds ← finding ds "monitor" "C17" "failed_execution_is_charged" s!"a call that ran out of gas in an endless loop was charged {J.intOf j "gasUsed"} of {J.intOf j "gasWanted"}"
        -- a call into a program that reverts / aborts / loops must be reported as failed
        if J.strOf m "expect" == "fail" && code == 0 then
          ds ← finding ds "monitor" "C18" "failure_reported" s!"call to a {J.strOf m "kind"} contract returned code 0"
        -- LOG events of a reverted inner call must not appear in the transaction's events
        if code == 0 && J.strOf m "targetKind" == "logRevert" && (J.arrOf j "logs").any (fun a => J.str a == J.strOf m "target") then
          ds ← finding ds "monitor" "C18" "reverted_inner_call_leaves_event" s!"LOG of reverted inner call to {J.strOf m "target"} persisted"
    if code != 0 && !(J.arrOf j "logs").isEmpty then
      ds ← finding ds "monitor" "C18" "failed_tx_leaves_event" (Json.arr (J.arrOf j "logs").toArray).compress
  ds ← transitionMonitors ds pre.g pre.c false
  runMonitors ds false false

def handleView (ds : DS) (j : Json) : IO DS := do
  -- a read-only execution: no observed module may have changed
  let mut ds := stat ds "sit.c18.view"
  match J.get j "st" with
  | .obj kvs =>
    for (k, _) in kvs.toList do
      ds ← finding ds "monitor" "C18" "view_modifies_state" s!"module {k} changed by a read-only execution of a {J.strOf j "kind"} contract"
  | _ => pure ()
  return loadObs ds (J.get j "st")

def handleBegin (ds : DS) (j : Json) : IO DS := do
  let pre : MW := { l := ds.ledger, o := ds.oracle, g := ds.gov, c := ds.cert, v := ds.vest, k := ds.cvm, accts := ds.accounts, sh := ds.shield }
  let mut ds := { ds with h := J.intOf j "h", t := J.intOf j "t" }
  if J.has j "panic" then
    ds ← finding ds "panic" "C08" ("begin:" ++ J.strOf (J.get j "panic") "site") (J.strOf (J.get j "panic") "value")
    return ds
  ds := loadObs ds (J.get j "st")
  ds := stat ds "block.begin"
  let mut w := pre
  if ds.hasOracle then
    for (a, _) in ds.dep do
      let delta := Coins.sub (ds.ledger.bal a) (pre.l.bal a)
      if !Coins.isZero delta then
        ds := { ds with ret := addTo ds.ret a delta }
        ds := stat ds "sit.c14.withdrawal_paid"
    match Oracle.beginBlock (oracleEnv ds) pre.l pre.o with
    | .error x => ds ← finding ds "diverge" "C14,C08" "begin:model-panics" x.kind
    | .ok (l', o') => w := { w with l := l', o := o' }
  if ds.hasShield then
    -- the mint module's share for shield: whatever arrived in the module account is recorded as block fees
    let m := ds.sys.modAddr "shield"
    let delta := ds.ledger.balOf m "uctk" - pre.l.balOf m "uctk"
    if delta != 0 then ds := stat ds "sit.c02.block_rewards"
    let (l', s') := Shield.fundBlockRewards (shieldEnv ds) w.l w.sh (ds.sys.modAddr "mint") delta
    w := { w with l := l', sh := s' }
    -- double-sign evidence: the SDK slashes the validator and, for an infraction in the past, the unbonding delegations and
    -- redelegations begun since — the latter by unbonding at the destination validator, which runs the delegation hooks
    -- (rewards are withdrawn, shield recomputes the provider's stake).  Staking is an observed input of the shield model: the
    -- hook is applied to every provider whose recorded stake changed in this BeginBlock.
    if J.has j "evidence" then
      ds := stat ds "sit.c09.double_sign_evidence"
      for p in w.sh.providers do
        if (Shield.findProvider ds.shield p.addr).map (·.bonded) != some p.bonded then
          match Shield.stakingChanged (shieldEnv ds) w.sh p.addr with
          | .ok s2 => w := { w with sh := s2 }
          | .error x => ds ← finding ds "diverge" "C06,C03" "begin:hook-fails" s!"{p.addr}: {x.kind}"
  -- … and the reward withdrawals move coins between distribution and the delegators: only the shield account is compared then
  let skip := if J.has j "evidence" then ds.ledger.accounts.filter (· != ds.sys.modAddr "shield") ++ ds.sys.systemAccts else ds.sys.systemAccts
  ds ← compareWorld ds "begin" w skip
  ds ← transitionMonitors ds pre.g pre.c false
  runMonitors ds true false

def handleEnd (ds : DS) (j : Json) : IO DS := do
  let pre : MW := { l := ds.ledger, o := ds.oracle, g := ds.gov, c := ds.cert, v := ds.vest, k := ds.cvm, accts := ds.accounts, sh := ds.shield }
  let mut ds := ds
  let preStk := ds.stk
  if J.has j "panic" then
    ds ← finding ds "panic" "C08" ("end:" ++ J.strOf (J.get j "panic") "site") (J.strOf (J.get j "panic") "value")
    return ds
  let stakeBeforeEnd := ds.stake
  ds := loadObs ds (J.get j "st")
  -- the staking end-blocker runs before governance's: the tally reads the staking state as it is after this block
  let preStake := ds.stake
  if ds.hasStk then
    ds := stat ds "mon.c09.end"
    let o := ds.stk
    let vu := StakingD.parseVu (J.get j "vu")
    if !vu.isEmpty then ds := stat ds "sit.c09.validator_updates"
    let view' := Staking.applyUpdates ds.view vu
    let bonded := StakingD.bondedView o
    -- a claim paid by governance's end-blocker (which runs after staking's) takes stake from validators: consensus learns
    -- of it in the next block, like of anything else that happens after the staking end-blocker
    let paidNow := ds.hasShield && ds.gov.proposals.any (fun p => p.kind == "claim" && p.status == 4 &&
      ((pre.g.proposals.find? (·.id == p.id)).map (·.status)).getD 0 != 4)
    if paidNow then ds := stat ds "sit.c09.stake_changed_after_staking_endblocker"
    -- consensus' view after this block's updates is the bonded set
    if !paidNow && !Staking.sameViewB view' bonded then
      ds ← finding ds "monitor" "C09" "consensus_view_tracks_bonded_set" s!"consensus sees [{StakingD.showView view'}], bonded validators are [{StakingD.showView bonded}]; updates [{StakingD.showView vu}]"
    -- the bonded set is the set that deserves it
    let tgt := Staking.target (o.vals.map (·.v)) o.maxN
    if StakingD.cutDecided o && !paidNow then
      if !Staking.sameViewB view' tgt then
        ds ← finding ds "monitor" "C09" "validator_set_follows_stake" s!"consensus sees [{StakingD.showView view'}]; by stake the set should be [{StakingD.showView tgt}] (max {o.maxN})"
      -- correspondence: the updates are exactly the difference
      if StakingD.sortUpd vu != StakingD.sortUpd (Staking.updates ds.view tgt) then
        ds ← finding ds "diverge" "C09" "state:end:validator-updates" s!"model=[{StakingD.showUpd (Staking.updates ds.view tgt)}] impl=[{StakingD.showUpd vu}]"
    else ds := stat ds "sit.c09.tie_at_the_cut"
    ds := { ds with view := view' }
    for x in StakingD.poolProblems ds.stk do ds ← finding ds "monitor" "C09,C01,C08" "staking_pools_hold_the_stake" x
    -- unbondings and redelegations whose time has come are completed; the others stay
    let due := Staking.matured ds.t preStk.ubds
    if !due.isEmpty then ds := stat ds "sit.c09.unbondings_matured"
    for u in ds.stk.ubds do
      if u.time ≤ ds.t then ds ← finding ds "monitor" "C09" "mature_unbonding_completes" s!"entry {StakingD.ubdKey u} due at {u.time} still queued after the block at {ds.t}"
    for r in ds.stk.reds do
      if r.time ≤ ds.t then ds ← finding ds "monitor" "C09" "mature_redelegation_completes" s!"redelegation of {r.del} {r.src}->{r.dst} due at {r.time} still recorded after the block at {ds.t}"
    if !(preStk.reds.filter (·.time ≤ ds.t)).isEmpty then ds := stat ds "sit.c09.redelegations_matured"
    if !ds.hasShield then
      for u in Staking.pending ds.t preStk.ubds do
        if !(ds.stk.ubds.any (· == u)) then ds ← finding ds "monitor" "C09" "unbonding_never_early" s!"entry {StakingD.ubdKey u} due at {u.time} left the queue at {ds.t}"
    else
      for u in Staking.pending ds.t preStk.ubds do
        -- a claim lock may postpone an entry and a payout may take from it; nothing else
        if !(ds.stk.ubds.any (fun x => x.del == u.del && x.val == u.val && x.height == u.height && x.time ≥ u.time)) && !(ds.gov.proposals.any (fun p => p.kind == "claim" && p.status == 4)) then
          ds ← finding ds "monitor" "C09" "unbonding_never_early" s!"entry {StakingD.ubdKey u} due at {u.time} left the queue at {ds.t}"
    if !ds.hasGov && !ds.hasShield then
      -- the coins come back, exactly
      for a in (due.map (·.del)).eraseDups do
        let got := Coins.amountOf (Coins.sub (ds.ledger.bal a) (pre.l.bal a)) "uctk"
        if got != Staking.returnedTo a due then
          ds ← finding ds "monitor" "C09" "unbonded_coins_returned" s!"delegator {a}: matured {Staking.returnedTo a due}, received {got}"
  ds := stat ds "block.end"
  let mut w := pre
  let mut modelOk := true
  let mut shieldOk := ds.hasShield
  let mut paidTotal : Int := 0
  if ds.hasShield then
    -- end-blocker order: shield, staking, gov.  Staking's own end-blocker (unbondings returning coins) is not modelled.
    w := { w with skipLedger := true }
    let se := shieldEnv ds
    match Shield.endBlock se w.sh with
    | .error x =>
      ds ← finding ds "diverge" "C08,C03" "end:shield-model-fails" x.kind
      shieldOk := false
    | .ok s1 =>
      w := { w with sh := s1 }
      if !(pre.sh.withdraws.filter (·.time ≤ ds.t)).isEmpty then ds := stat ds "sit.c07.withdrawals_completed"
      if pre.sh.lists.any (fun l => l.entries.any (·.delTime < ds.t)) then ds := stat ds "sit.c06.purchases_expired"
    -- claims that governance finalised in this block, in the order of the active-proposal queue
    let ended := Gov.sortByKey (·.votingEnd) (pre.g.proposals.filter (fun p => p.kind == "claim" && GovD.liveStatus p.status &&
      (ds.gov.proposals.find? (·.id == p.id)).any (fun q => !GovD.liveStatus q.status)))
    let burned := Coins.amountOf (Coins.sub pre.l.supply ds.ledger.supply) "uctk"
    let rejected := ended.filter (fun p => (ds.gov.proposals.find? (·.id == p.id)).any (fun q => q.status == 5 || q.status == 6))
    if (ended.filter (fun p => (ds.gov.proposals.find? (·.id == p.id)).any (·.status == 4))).length > 1 then
      -- two payouts in one block: the bonded stake the hooks saw after the first one is not observable
      shieldOk := false
      ds := stat ds "end.two_payouts_unmodelled"
    for p in ended do
      let q := (ds.gov.proposals.find? (·.id == p.id)).getD p
      let loss := Coins.amountOf p.clLoss "uctk"
      let dep := Coins.amountOf ((pre.g.deposits.filter (·.pid == p.id)).foldl (fun acc d => Coins.add acc d.amount) ([] : Coins)) "uctk"
      let outcome : Option Shield.ClaimOutcome :=
        if q.status == 4 then some .paid
        else if q.status == 6 then some .rejected      -- a payout that fails undoes the lock like a rejection (x/gov/endblocker.go)
        else if rejected.length == 1 && dep > 0 then (if burned == dep then some .vetoed else some .rejected)
        else if dep > 0 && burned == 0 then some .rejected
        else none
      ds := stat ds s!"sit.c05.claim_ended.{q.status}"
      match outcome with
      | none => shieldOk := false; ds := stat ds "end.claim_outcome_ambiguous"
      | some o =>
        if o == .paid then paidTotal := paidTotal + loss
        if o == .vetoed then ds := stat ds "sit.c05.claim_vetoed"
        if shieldOk then
          match Shield.claimEnds se w.l w.sh p.id p.clPool p.cuProposer p.cuProposer p.clPurchase loss o with
          | .error x =>
            ds ← finding ds "diverge" "C08,C04" "end:claim-model-fails" s!"proposal {p.id}: {x.kind}"
            shieldOk := false
          | .ok (l', s') => w := { w with l := l', sh := s' }
        -- C04/C05, restated on the observations
        let had := pre.sh.reimbs.any (·.pid == p.id)
        match ds.shield.reimbs.find? (·.pid == p.id) with
        | some r =>
          if o != .paid && !had then ds ← finding ds "monitor" "C04" "reimbursement_only_for_passed_claim" s!"claim {p.id} ended with status {q.status} but a reimbursement of {r.amount} was recorded"
          if o == .paid && (r.amount != loss || r.beneficiary != p.cuProposer || r.payoutTime != ds.t + pre.sh.params.payoutPeriod) then
            ds ← finding ds "monitor" "C04" "reimbursement_exact" s!"claim {p.id}: loss {loss} for {p.cuProposer}; recorded {r.amount} for {r.beneficiary} payable at {r.payoutTime} (now {ds.t}, period {pre.sh.params.payoutPeriod})"
        | none =>
          if o == .paid then ds ← finding ds "monitor" "C04" "reimbursement_exact" s!"claim {p.id} passed but no reimbursement is recorded"
    if !ended.isEmpty then
      -- the locks of all ended claims are released
      let released := ended.foldl (fun acc p => acc + Coins.amountOf p.clLoss "uctk") (0 : Int)
      if pre.sh.totalClaimed - ds.shield.totalClaimed != released then
        ds ← finding ds "monitor" "C05" "claim_lock_released" s!"locked for claims {pre.sh.totalClaimed}->{ds.shield.totalClaimed}; claims ended with losses {released}"
    -- C04: reimbursements appear only for claims that passed now
    for r in ds.shield.reimbs do
      if !(pre.sh.reimbs.any (· == r)) && !(ended.any (fun p => p.id == r.pid && (ds.gov.proposals.find? (·.id == p.id)).any (·.status == 4))) then
        ds ← finding ds "monitor" "C04" "reimbursement_only_for_passed_claim" s!"reimbursement {r.pid} of {r.amount} appeared without a claim passing"
    for r in pre.sh.reimbs do
      if !(ds.shield.reimbs.any (·.pid == r.pid)) then ds ← finding ds "monitor" "C04" "reimbursement_withdrawn_once" s!"reimbursement {r.pid} disappeared in an end-blocker"
    -- C04: the coins of the payouts arrived
    let m := ds.sys.modAddr "shield"
    if ds.ledger.balOf m "uctk" - pre.l.balOf m "uctk" != paidTotal then
      ds ← finding ds "monitor" "C04" "payout_arrives_in_module" s!"module balance {pre.l.balOf m "uctk"}->{ds.ledger.balOf m "uctk"}; claims paid {paidTotal}"
    -- C05: a rejected claim's shield goes back to the purchase it was taken from (when that purchase still exists)
    let restorable := rejected.filter (fun p =>
      let dep := Coins.amountOf ((pre.g.deposits.filter (·.pid == p.id)).foldl (fun acc d => Coins.add acc d.amount) ([] : Coins)) "uctk"
      dep > 0 && (burned == 0 || (rejected.length == 1 && burned != dep)))
    let allKnown := rejected.all (fun p =>
      let dep := Coins.amountOf ((pre.g.deposits.filter (·.pid == p.id)).foldl (fun acc d => Coins.add acc d.amount) ([] : Coins)) "uctk"
      dep > 0 && (burned == 0 || rejected.length == 1))
    if allKnown then
      let keys := (restorable.map (fun p => (p.clPool, p.cuProposer, p.clPurchase))).eraseDups
      for (pool, holder, purchase) in keys do
        -- the purchase as the shield end-blocker of this block left it
        if w.sh.lists.any (fun l => l.pool == pool && l.purchaser == holder && l.entries.any (·.id == purchase)) || !shieldOk then
          let expected := (restorable.filter (fun p => p.clPool == pool && p.cuProposer == holder && p.clPurchase == purchase)).foldl (fun acc p => acc + Coins.amountOf p.clLoss "uctk") (0 : Int)
          let sh (s : Shield.State) : Option Int := ((Shield.findList s pool holder).bind (fun l => l.entries.find? (·.id == purchase))).map (·.shield)
          match sh pre.sh, sh ds.shield with
          | some a, some b =>
            ds := stat ds "mon.c05.restore"
            if b - a != expected then
              ds ← finding ds "monitor" "C05" "shield_restored_to_purchase" s!"claims rejected on purchase {purchase} of {holder}: shield {a}->{b}; losses to restore {expected}"
          | _, _ => pure ()
    for x in ShieldD.monCollateralRelease pre.sh ds.shield ds.t paidTotal do ds ← finding ds "monitor" "C07,C04" "released_only_by_queue" x
    for x in ShieldD.monQueueAfterEnd ds.shield ds.t do ds ← finding ds "monitor" "C07" "matured_withdrawals_complete" x
    for x in ShieldD.monNewWithdraws pre.sh ds.shield ds.t do ds ← finding ds "monitor" "C07" "full_period_before_release" x
  if ds.hasStk && !ds.hasShield then
    -- the staking end-blocker pays matured unbonding entries back out of the not-bonded pool
    w := { w with l := (Staking.completeUnbondings w.l (ds.sys.modAddr "not_bonded_tokens_pool") "uctk" ds.t preStk.ubds).1 }
  if ds.hasGov then
    -- gov runs before oracle in the end-blocker order; they share nothing but the ledger
    if pre.g.proposals.any (fun p => p.kind == "claim" && GovD.liveStatus p.status) then
      modelOk := false   -- claims are validated by the shield engine
      ds := stat ds "end.gov_unmodelled_claim"
    else match Gov.endBlock (govEnv ds preStake) { l := w.l, g := w.g, c := w.c } with
      | .error x => ds ← finding ds "diverge" "C11,C08" "end:gov-model-panics" x.kind; modelOk := false
      | .ok x => w := { w with l := x.l, g := x.g, c := x.c }
  if ds.hasOracle then
    match Oracle.endBlock (oracleEnv ds) w.o with
    | .error x => ds ← finding ds "diverge" "C15,C08" "end:model-panics" x.kind; modelOk := false
    | .ok o' => w := { w with o := o' }
    if !(Oracle.closingAt pre.o ds.h).isEmpty then ds := stat ds "sit.c15.tasks_closed_blocks"
  if modelOk then ds ← compareWorld ds "end" w ds.sys.systemAccts
  else if shieldOk && !ds.shieldOutside then
    for x in ShieldD.diffFacts' (ShieldD.facts w.sh) (ShieldD.facts ds.shield) do
      ds ← finding ds "diverge" (ShieldD.propsOfFact x) "state:end" x
  if ds.hasOracle then
    for x in OracleD.monStatusChanges pre.o ds.oracle true ds.h do
      ds ← finding ds "monitor" "C15" "aggregated_once_at_closing" x
    for x in OracleD.monNoMissedAggregation ds.oracle ds.h do
      ds ← finding ds "monitor" "C15" "aggregated_once_at_closing" ("pending-after-closing-block:" ++ x)
    for t in ds.oracle.tasks do
      match OracleD.findT pre.o t with
      | some p =>
        if p.status == 1 && t.status != 1 then
          ds := stat ds (if t.status == 2 then "sit.c15.task_succeeded" else "sit.c15.task_failed")
          match OracleD.monAggregation "uctk" pre.o p t with
          | some x => ds ← finding ds "monitor" "C15" "aggregation_result" x
          | none => pure ()
      | none => pure ()
    for x in OracleD.monBounty pre.o ds.oracle ds.h do
      ds ← finding ds "monitor" "C15" "bounty_bounded" x
  if ds.hasGov then
    -- C11: what left escrow went back to the depositors or was burned, exactly
    let finalised := pre.g.proposals.filter (fun p => GovD.liveStatus p.status &&
      !((ds.gov.proposals.find? (·.id == p.id)).any (fun q => GovD.liveStatus q.status)))
    let released := (pre.g.deposits.filter (fun d => finalised.any (·.id == d.pid)))
    let burned := Coins.sub pre.l.supply ds.ledger.supply
    if !finalised.isEmpty then ds := stat ds "sit.c11.proposals_finalised"
    if !(Coins.isZero burned) then ds := stat ds "sit.c11.deposits_burned"
    let depositors := (released.map (·.depositor)).eraseDups
    let mut back : Coins := []
    let unbonded (a : Addr) : Coins := [("uctk", Staking.returnedTo a (Staking.matured ds.t preStk.ubds))]
    for a in depositors do
      back := Coins.add back (Coins.sub (Coins.sub (ds.ledger.bal a) (pre.l.bal a)) (unbonded a))
    let total := released.foldl (fun acc d => Coins.add acc d.amount) ([] : Coins)
    -- (a claim payout undelegates providers' shares, which makes the distribution module pay them their staking rewards in this
    --  same end-blocker: a provider who is also a depositor then receives more than the refund)
    if paidTotal > 0 then ds := stat ds "sit.c11.refund_check_skipped_payout_block"
    if paidTotal == 0 && !Coins.beq total (Coins.add back burned) then
      ds ← finding ds "monitor" "C11" "refund_or_burn_exact" s!"released={Coins.toStr total} returned={Coins.toStr back} burned={Coins.toStr burned} proposals={finalised.map (·.id)}"
    if Coins.isZero burned && paidTotal == 0 then
      for a in depositors do
        let mine := (released.filter (·.depositor == a)).foldl (fun acc d => Coins.add acc d.amount) ([] : Coins)
        let got := Coins.sub (Coins.sub (ds.ledger.bal a) (pre.l.bal a)) (unbonded a)
        if !Coins.beq mine got then
          ds ← finding ds "monitor" "C11" "refund_or_burn_exact" s!"depositor {a} had {Coins.toStr mine} in escrow, received {Coins.toStr got}"
    -- C12: outcome of each round, restated independently
    for p in pre.g.proposals do
      match ds.gov.proposals.find? (·.id == p.id) with
      | none => pure ()
      | some q =>
        let votes := pre.g.votes.filter (·.pid == p.id)
        if p.status == 3 && q.status != 3 then
          ds := stat ds s!"sit.c12.stake_round_ended.{q.status}"
          let tp := if p.kind == "certifierUpdate" then pre.g.params.certStake else pre.g.params.default
          -- a shield claim is decided by the certified identities: the quorum is taken of their bonded stake
          -- (x/gov/keeper/proposal.go TotalBondedByCertifiedIdentities: per identity certificate, per delegation to a bonded validator)
          -- "counted over certified identities' stake": an identity's stake counts once, however many certificates name it
          let identities := ((ds.cert.certs.filter (·.kind == "identity")).map (·.content)).eraseDups
          let claimDenominator : Int := identities.foldl (fun acc a => (preStake.dels.filter (·.1 == a)).foldl (fun acc2 d =>
              match preStake.vals.find? (·.1 == d.2.1) with
              | some vi => if vi.2.2.raw == 0 then acc2 else acc2 + Dec.truncateInt (Dec.mulInt (Dec.quo d.2.2 vi.2.2) vi.2.1)
              | none => acc2) acc) 0
          let view := if p.kind == "claim" then { preStake with totalBonded := claimDenominator } else preStake
          let (pass, veto, decisive0) := GovD.specStakeRule view votes tp
          -- a claim paid in this very end-blocker takes stake from validators after the tally has read it: the observed state is
          -- then not the one the tally saw.  The rule is decisive there only if the state before the end-blockers gives the
          -- same verdict (the payout moves the shares by less than the distance to any threshold).
          let paidHere := ds.hasShield && ds.gov.proposals.any (fun x => x.kind == "claim" && x.status == 4 &&
            ((pre.g.proposals.find? (·.id == x.id)).map (·.status)).getD 0 != 4)
          let denomBefore : Int := identities.foldl (fun acc a => (stakeBeforeEnd.dels.filter (·.1 == a)).foldl (fun acc2 d =>
              match stakeBeforeEnd.vals.find? (·.1 == d.2.1) with
              | some vi => if vi.2.2.raw == 0 then acc2 else acc2 + Dec.truncateInt (Dec.mulInt (Dec.quo d.2.2 vi.2.2) vi.2.1)
              | none => acc2) acc) 0
          let viewBefore := if p.kind == "claim" then { stakeBeforeEnd with totalBonded := denomBefore } else stakeBeforeEnd
          let (passB, vetoB, decisiveB) := GovD.specStakeRule viewBefore votes tp
          let decisive := decisive0 && (!paidHere || (decisiveB && passB == pass && vetoB == veto))
          if paidHere && !decisive then ds := stat ds "sit.c12.tally_state_unobservable_in_payout_block"
          -- a payout that cannot be made fails the proposal although the vote passed: counted, by where it happened
          -- (inside the module's stated design assumption on the periods or not; see DESIGN §11.4)
          if p.kind == "claim" && q.status == 6 then
            let inDom := ds.hasShield && ds.hasStk &&
              pre.sh.params.withdrawPeriod ≥ pre.sh.params.protection && ds.stk.unbondingNs ≥ pre.sh.params.withdrawPeriod &&
              pre.sh.params.protection ≥ 2 * pre.g.params.votingPeriod
            ds := stat ds (if inDom then "sit.c04.passed_claim_failed_at_payout.periods_in_domain" else "sit.c04.passed_claim_failed_at_payout.periods_outside_domain")
          if decisive && !(p.kind == "claim" && claimDenominator == 0) then
            let passed := q.status == 4 || q.status == 6
            if pass != passed then
              ds ← finding ds "monitor" "C12" "stake_round_rule" s!"proposal {p.id} ({p.kind}): rule says pass={pass} veto={veto}, status {q.status}; votes={votes.map (fun v => (v.voter, v.option))}"
            if finalised.length == 1 then
              -- a vetoed proposal's deposits are burned, exactly; nothing is burned otherwise
              let expected : Coins := if veto then total else []
              if !Coins.beq burned expected then
                ds ← finding ds "monitor" "C11" "veto_burns" s!"proposal {p.id}: veto={veto} deposits={Coins.toStr total} burned={Coins.toStr burned}"
          else ds := stat ds "sit.c12.rule_too_close_to_call"
        if p.status == 2 && q.status != 2 then
          ds := stat ds s!"sit.c12.certifier_round_ended.{q.status}"
          -- "a one-certifier-one-vote round that only certifiers can vote in": the votes that count are those of the
          -- certifiers in office when the round is tallied (a vote cast by somebody removed from the council since does not)
          let certVotes := votes.filter (fun v => Cert.isCertifier pre.c v.voter)
          if certVotes.length != votes.length then ds := stat ds "sit.c12.vote_of_a_former_certifier_at_tally"
          let (pass, decisive) := GovD.specSecurityRule pre.c.certifiers.length certVotes pre.g.params.security
          -- the head count is taken when the proposal is tallied: decisive only if the council did not change in this block
          -- (its members, not just their number: one proposal may remove a certifier and the next one add another)
          let members (c : Cert.State) : List Addr := (c.certifiers.map (·.addr)).mergeSort (fun a b => a ≤ b)
          if decisive && members pre.c == members ds.cert then
            if p.kind == "certifierUpdate" then
              if pass != (q.status == 4 || q.status == 6) && !(q.status == 3 && !pass) then
                ds ← finding ds "monitor" "C12" "certifier_round_rule" s!"proposal {p.id}: certifiers pass={pass}, status {q.status}"
            else
              if pass != (q.status == 3) then
                ds ← finding ds "monitor" "C12" "certifier_round_rule" s!"proposal {p.id} ({p.kind}): certifiers pass={pass}, status {q.status}"
  ds ← transitionMonitors ds pre.g pre.c true
  runMonitors ds false true

partial def loop (hIn : IO.FS.Stream) (ds : DS) : IO DS := do
  let line ← hIn.getLine
  if line.isEmpty then return ds
  match Json.parse line with
  | .error e =>
    IO.println s!"PARSE-ERROR line {ds.line}: {e}"
    loop hIn { ds with line := ds.line + 1 }
  | .ok j =>
    let ds := { ds with line := ds.line + 1 }
    let ds ← match J.strOf j "k" with
      | "genesis" => do
        let names := match J.get j "names" with
          | .obj kvs => kvs.toList.map (fun (k, v) => (k, J.str v))
          | _ => []
        let ds0 : DS := { sys := { names := names }, hist := J.intOf j "seed", line := ds.line, h := J.intOf j "h", t := J.intOf j "t",
                          stats := ds.stats, nFind := ds.nFind, nSample := ds.nSample }
        let ds0 := noteStatuses (loadObs ds0 (J.get j "st"))
        let ds0 := { ds0 with view := StakingD.bondedView ds0.stk }
        runMonitors (stat ds0 "history") false true
      | "tx" => handleTx ds j
      | "begin" => handleBegin ds j
      | "end" => handleEnd ds j
      | "view" => handleView ds j
      | "xcmp" => do
        -- C20: the original node and the node started from its export
        let phase := J.strOf j "phase"
        let mut ds := stat ds s!"sit.c20.{phase}"
        ds := { ds with h := J.intOf j "h", stats := bump ds.stats "tx.continued.ok" ((J.intOf j "txs").toNat + 1) }
        for d in J.arrOf j "diffs" do
          let name := if phase == "reexport" then "export_import_export_same_state" else if phase == "imported" then "imported_state_same" else "continuation_same"
          -- a state that does not survive the export is also a failure of the properties of the modules whose history it is
          let props := "C20" ++ (match J.strOf j "base" with
            | "gov" => ",C11,C12,C13" | "oracle" => ",C14,C15" | "shield" => ",C02,C03,C04,C05,C06,C07" | "bankvm" => ",C01,C18,C19"
            | "staking" => ",C09" | _ => "")
          ds ← finding ds "monitor" props name s!"{phase} at height {J.intOf j "h"} (exported after height {J.intOf j "cut"}, {J.strOf j "base"} history): {J.str d}"
        pure ds
      | "xstate" => do
        -- the imported node's state: all block-boundary identities must hold on it
        let ds1 : DS := { sys := ds.sys, hist := ds.hist, line := ds.line, h := J.intOf j "h", t := J.intOf j "t", stats := ds.stats, nFind := ds.nFind, nSample := ds.nSample, seen := ds.seen }
        let ds1 := loadObs ds1 (J.get j "st")
        -- the ghost ledgers of the oracle monitors start here
        let ds2 ← runMonitors (stat ds1 "sit.c20.identities_checked") false true
        pure { ds with stats := ds2.stats, nFind := ds2.nFind, seen := ds2.seen }
      | "payout" => do
        -- C04: one call of the real MakePayoutByProviderDelegations (profile "payout")
        let r := PayoutD.check j
        let mut ds := { ds with h := J.intOf j "h" }
        for k in r.stats do ds := stat ds ("sit." ++ k)
        ds := { ds with stats := bump ds.stats "tx.payout.ok" 1 }
        for (kind, props, name, detail) in r.findings do
          ds ← finding ds kind props name detail
        pure ds
      | "mint" => do
        -- C01/C02/C08: one call of the real mint.BeginBlocker (profile "mint")
        let r := MintD.check j
        let mut ds := ds
        for k in r.stats do ds := stat ds ("sit." ++ k)
        ds := { ds with stats := bump ds.stats "tx.mint.beginblock.ok" 1 }
        for (kind, props, name, detail) in r.findings do
          ds ← finding ds kind props name detail
        pure ds
      | "ubdq" => do
        -- C09/C04: the real DelayUnbonding, PayFromUnbondings and unbonding completion on one unbonding state (profile "ubdqueue")
        let r := UbdD.check j
        let mut ds := { ds with h := J.intOf j "h" }
        for k in r.stats do ds := stat ds ("sit." ++ k)
        ds := { ds with stats := bump ds.stats "tx.ubdq.ok" 1 }
        for (kind, props, name, detail) in r.findings do
          ds ← finding ds kind props name detail
        pure ds
      | "reimb" => do
        -- C04/C02/C03/C08: one call of the real CreateReimbursement at a chosen utilisation of the collateral (profile "reimburse")
        let r := ReimbD.check j
        let mut ds := { ds with h := J.intOf j "h" }
        for k in r.stats do ds := stat ds ("sit." ++ k)
        ds := { ds with stats := bump ds.stats (if J.has j "skipped" then "tx.reimb.skipped" else "tx.reimb.ok") 1 }
        for (kind, props, name, detail) in r.findings do
          ds ← finding ds kind props name detail
        pure ds
      | "oparams" => do
        -- C08: the oracle's task parameters changed by the real parameter-change handler, then the real end-blocker (profile "oracleparams")
        let r := OracleParamsD.check j
        let mut ds := ds
        for k in r.stats do ds := stat ds ("sit." ++ k)
        ds := { ds with stats := bump ds.stats "tx.oracle.paramchange.ok" 1 }
        for (kind, props, name, detail) in r.findings do
          ds ← finding ds kind props name detail
        pure ds
      | "sparams" => do
        -- C07: the shield's withdraw period changed by the real parameter-change handler, then a real withdrawal request (profile "shieldparams")
        let r := ShieldParamsD.check j
        let mut ds := ds
        for k in r.stats do ds := stat ds (if k.startsWith "mon." then k else "sit." ++ k)
        ds := { ds with stats := bump ds.stats "tx.shield.paramchange.ok" 1 }
        for (kind, props, name, detail) in r.findings do
          ds ← finding ds kind props name detail
        pure ds
      | "gparams" => do
        -- C08: the gov tally parameters changed by the real parameter-change handler, then the real end-blocker (profile "govparams")
        let r := GovParamsD.check j
        let mut ds := ds
        for k in r.stats do ds := stat ds ("sit." ++ k)
        ds := { ds with stats := bump ds.stats "tx.gov.paramchange.ok" 1 }
        for (kind, props, name, detail) in r.findings do
          ds ← finding ds kind props name detail
        pure ds
      | "wasm" => do
        -- C17: one delivery of a counting loop as eWASM / EVM code (profile "wasm")
        let r := WasmD.check j
        let mut ds := { ds with h := J.intOf j "h" }
        for k in r.stats do ds := stat ds (if k.startsWith "mon." then k else "sit." ++ k)
        ds := { ds with stats := bump ds.stats (if J.intOf j "code" == 0 then "tx.cvm.wasm.ok" else "tx.cvm.wasm.fail") 1 }
        for (kind, props, name, detail) in r.findings do
          ds ← finding ds kind props name detail
        pure ds
      | "blockhash" => do
        -- C16/C20: one call of a contract returning BLOCKHASH(NUMBER - k) (profile "blockhash")
        let (bh, r) := BlockhashD.check ds.bh j
        let mut ds := { ds with bh := bh, h := J.intOf j "h" }
        for k in r.stats do ds := stat ds ("sit." ++ k)
        ds := { ds with stats := bump ds.stats "tx.cvm.blockhash.ok" 1 }
        for (kind, props, name, detail) in r.findings do
          ds ← finding ds kind props name detail
        pure ds
      | "cmp" => do
        -- C10: a second instance and a restarted instance were fed the same block
        let mut ds := stat ds "sit.c10.blocks_compared"
        ds := { ds with h := J.intOf j "h" }
        ds := { ds with stats := bump ds.stats "tx.replayed.ok" (J.intOf j "txs").toNat }
        if J.boolOf j "restarted" then ds := stat ds "sit.c10.restarts"
        if J.strOf j "a" != J.strOf j "b" then
          ds ← finding ds "monitor" "C10" "two_nodes_same_app_hash" s!"height {J.intOf j "h"}: node A {J.strOf j "a"}, node B {J.strOf j "b"}"
        if J.strOf j "a" != J.strOf j "c" then
          ds ← finding ds "monitor" "C10" "restarted_node_same_app_hash" s!"height {J.intOf j "h"}: node A {J.strOf j "a"}, restarted node {J.strOf j "c"} (restarted before this block: {J.boolOf j "restarted"})"
        for d in J.arrOf j "diffs" do
          ds ← finding ds "monitor" "C10" "same_transaction_results" s!"height {J.intOf j "h"}: {J.str d}"
        pure ds
      | _ => pure ds
    loop hIn ds

def main : IO Unit := do
  let ds ← loop (← IO.getStdin) {}
  for (k, v) in ds.stats do
    IO.println s!"STAT {k} {v}"
  IO.println s!"DONE findings={ds.nFind} lines={ds.line}"
