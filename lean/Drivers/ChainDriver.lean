import Drivers.Common
import Drivers.OracleD
import Drivers.GovD
import Drivers.BankVmD
/-
  Chain driver: reads the trace of the real application (one JSON object per line),
  runs the model on every operation from the *observed* pre-state, compares the
  model's post-state with the observed post-state, and evaluates the monitors on
  every observed state.  Output: one JSON object per finding, then statistics.
-/
open Lean Shentu Drivers

structure DS where
  sys : Sys := default
  hist : Int := 0
  line : Nat := 0
  h : Int := 0
  t : Int := 0
  ledger : Ledger := default
  oracle : Oracle.State := default
  hasOracle : Bool := false
  gov : Gov.State := default
  hasGov : Bool := false
  cert : Cert.State := default
  hasCert : Bool := false
  certUnret : List String := []
  stake : Gov.StakeView := default
  vest : Vesting.Accounts := []
  staked : List (Addr × Int) := []
  accounts : List Addr := []
  hasVest : Bool := false
  cvm : Cvm.State := default
  hasCvm : Bool := false
  -- C14 ghost ledger (from observations only)
  dep : List (Addr × Coins) := []
  ret : List (Addr × Coins) := []
  -- C12 ghost: statuses each proposal has been seen in
  seenStatus : List (Nat × List Nat) := []
  stats : List (String × Nat) := []
  nFind : Nat := 0
  seen : List String := []          -- (kind,name) already reported in this history
  nSample : Nat := 0

def addTo (m : List (Addr × Coins)) (a : Addr) (c : Coins) : List (Addr × Coins) :=
  if m.any (·.1 == a) then m.map (fun e => if e.1 == a then (e.1, Coins.add e.2 c) else e) else m ++ [(a, c)]
def getOf (m : List (Addr × Coins)) (a : Addr) : Coins := ((m.find? (·.1 == a)).map (·.2)).getD []

def finding (ds : DS) (kind prop name detail : String) : IO DS := do
  let key := kind ++ "/" ++ name
  if ds.seen.contains key then return { ds with nFind := ds.nFind + 1 }
  let ds := { ds with seen := key :: ds.seen }
  let j := Json.mkObj [("kind", kind), ("prop", prop), ("name", name), ("hist", toString ds.hist), ("line", toString ds.line),
                       ("h", toString ds.h), ("detail", detail)]
  IO.println ("FINDING " ++ j.compress)
  return { ds with nFind := ds.nFind + 1 }

def stat (ds : DS) (k : String) : DS := { ds with stats := bump ds.stats k }

def loadObs (ds : DS) (st : Json) : DS := Id.run do
  let mut ds := ds
  if J.has st "bank" then ds := { ds with ledger := parseLedger (J.get st "bank") }
  if J.has st "oracle" then ds := { ds with oracle := OracleD.parseState (J.get st "oracle"), hasOracle := true }
  if J.has st "gov" then ds := { ds with gov := GovD.parseGov (J.get st "gov"), hasGov := true }
  if J.has st "cert" then ds := { ds with cert := GovD.parseCert (J.get st "cert"), hasCert := true, certUnret := GovD.unretrievable (J.get st "cert") }
  if J.has st "staking" then ds := { ds with stake := GovD.parseStake (J.get st "staking"), staked := BankVmD.stakedOf (J.get st "staking") }
  if J.has st "vesting" then
    let (vs, accts) := BankVmD.parseVesting (J.get st "vesting")
    ds := { ds with vest := vs, accounts := accts, hasVest := true }
  if J.has st "cvm" then ds := { ds with cvm := BankVmD.parseCvm (J.get st "cvm"), hasCvm := true }
  return ds

def oracleEnv (ds : DS) : Oracle.Env := { h := ds.h, t := ds.t, bond := "uctk", modAddr := ds.sys.modAddr "oracle" }
def govEnv (ds : DS) (stake : Gov.StakeView) : Gov.Env := { t := ds.t, bond := "uctk", modAddr := ds.sys.modAddr "gov", stake := stake }

/-- the part of the world the models cover -/
structure MW where
  l : Ledger
  o : Oracle.State
  g : Gov.State
  c : Cert.State
  v : Vesting.Accounts := []
  k : Cvm.State := default
  accts : List Addr := []

def proposalOfMsg (m : Json) : Gov.Proposal :=
  { id := 0, kind := J.strOf m "kind", cuCertifier := J.strOf m "certifier", cuAlias := J.strOf m "alias", cuAdd := J.boolOf m "add",
    cuProposer := J.strOf m "contentProposer", status := 0, isCouncil := false, proposer := "", totalDeposit := [], submitTime := 0,
    depositEnd := 0, votingStart := 0, votingEnd := 0, tally := ⟨0, 0, 0, 0⟩ }

/-- apply one message of the trace to the model; `none` = message kind not modelled -/
def applyMsg (ds : DS) (stake : Gov.StakeView) (w : MW) (m : Json) : Option (Except Err MW) :=
  let e := oracleEnv ds
  let ge := govEnv ds stake
  let onOracle (r : Except Err (Ledger × Oracle.State)) : Option (Except Err MW) := some (r.map (fun (l, o) => { w with l := l, o := o }))
  let onGov (r : Except Err Gov.World) : Option (Except Err MW) := some (r.map (fun x => { w with l := x.l, g := x.g, c := x.c }))
  let gw : Gov.World := { l := w.l, g := w.g, c := w.c }
  match J.strOf m "t" with
  | "oracle.createOperator" => onOracle (Oracle.createOperator e w.l w.o (J.strOf m "addr") (J.coinsOf m "coll") (J.strOf m "proposer"))
  | "oracle.removeOperator" => onOracle (Oracle.removeOperator e w.l w.o (J.strOf m "addr"))
  | "oracle.addCollateral" => onOracle (Oracle.addCollateral e w.l w.o (J.strOf m "addr") (J.coinsOf m "amt"))
  | "oracle.reduceCollateral" => onOracle (Oracle.reduceCollateral e w.l w.o (J.strOf m "addr") (J.coinsOf m "amt"))
  | "oracle.withdrawReward" => onOracle (Oracle.withdrawReward e w.l w.o (J.strOf m "addr"))
  | "oracle.createTask" => onOracle (Oracle.createTask e w.l w.o (J.strOf m "contract") (J.strOf m "function") (J.coinsOf m "bounty")
                                    (J.strOf m "creator") (J.intOf m "wait") (J.intOf m "valid"))
  | "oracle.respond" => onOracle ((Oracle.respond e w.o (J.strOf m "contract") (J.strOf m "function") (J.intOf m "score") (J.strOf m "op")).map (fun o' => (w.l, o')))
  | "oracle.deleteTask" => onOracle ((Oracle.deleteTask e w.o (J.strOf m "contract") (J.strOf m "function") (J.boolOf m "force") (J.strOf m "deleter")).map (fun o' => (w.l, o')))
  | "gov.submit" =>
    let k := J.strOf m "kind"
    if k == "text" || k == "certifierUpdate" || k == "upgrade" then
      onGov (Gov.submit ge gw (J.strOf m "proposer") (proposalOfMsg m) (J.coinsOf m "deposit"))
    else none
  | "gov.deposit" =>
    if (w.g.proposals.find? (·.id == (J.intOf m "pid").toNat)).any (·.kind == "claim") then none
    else onGov (Gov.addDeposit ge gw (J.intOf m "pid").toNat (J.strOf m "depositor") (J.coinsOf m "amt"))
  | "gov.vote" => onGov (Gov.vote gw (J.intOf m "pid").toNat (J.strOf m "voter") (J.intOf m "option").toNat)
  | "cert.issue" => some ((Cert.issue w.c (J.strOf m "certifier") (J.strOf m "kind") (J.strOf m "content")).map (fun c' => { w with c := c' }))
  | "cert.revoke" => some ((Cert.revoke w.c (J.strOf m "revoker") (J.intOf m "id").toNat).map (fun c' => { w with c := c' }))
  | "cert.platform" => some ((Cert.certifyPlatform w.c (J.strOf m "certifier") (J.strOf m "pubkey64") (J.strOf m "platform")).map (fun c' => { w with c := c' }))
  | "bank.send" =>
    let src := J.strOf m "from"; let dst := J.strOf m "to"; let amt := J.coinsOf m "amt"
    if Cvm.kindAt w.k dst != "none" then
      some ((Cvm.sendToContract "uctk" w.l w.v w.k src dst amt).map (fun (l, k) => { w with l := l, k := k }))
    else some ((Vesting.send w.l w.v src dst amt).map (fun l => { w with l := l }))
  | "bank.multisend" =>
    let src := J.strOf m "from"
    let outs := (J.arrOf m "outs").map (fun o => match J.arr o with | [a, x] => (J.str a, J.int x) | _ => ("", 0))
    if outs.any (fun o => Cvm.kindAt w.k o.1 != "none") then some (.error ⟨"bank:code-exists"⟩)
    else
      let total : Coins := [("uctk", outs.foldl (fun acc o => acc + o.2) 0)]
      some ((Vesting.canSpend w.l w.v src total).map (fun _ =>
        { w with l := outs.foldl (fun l o => l.credit o.1 [("uctk", o.2)]) (w.l.debit src total) }))
  | "bank.lockedSend" =>
    some ((Vesting.lockedSend w.l w.v (fun a => w.accts.contains a && (Vesting.find w.v a).isNone) (J.strOf m "from") (J.strOf m "to")
            (J.strOf m "unlocker") (J.coinsOf m "amt")).map (fun (l, v) => { w with l := l, v := v }))
  | "auth.unlock" =>
    some ((Vesting.unlock w.v (fun a => w.accts.contains a) (J.strOf m "issuer") (J.strOf m "account") (J.coinsOf m "amt")).map (fun v => { w with v := v }))
  | "cvm.deploy" =>
    if J.strOf m "newAddr" == "" then none   -- a failed deployment: the address is not known to the trace; compared as "nothing changes"
    else some ((Cvm.deploy "uctk" w.l w.v w.k (J.strOf m "caller") (J.strOf m "newAddr") (J.strOf m "code") (J.intOf m "value")).map (fun (l, k) => { w with l := l, k := k }))
  | "cvm.call" =>
    let data := J.strOf m "data"
    let w0 := (data.take 64).toString
    let isZero := w0.toList.all (· == '0')
    let target := if data.length ≥ 64 then ((w0.drop 24).toString) else ""
    some ((Cvm.call "uctk" w.l w.v w.k (J.strOf m "caller") (J.strOf m "callee") (J.intOf m "value") w0 (isZero || data == "") target (data != "")).map
      (fun (l, k) => { w with l := l, k := k }))
  | _ => none

def applyMsgs (ds : DS) (stake : Gov.StakeView) : List Json → MW → Option (Except Err MW)
  | [], w => some (.ok w)
  | m :: ms, w =>
    match applyMsg ds stake w m with
    | none => none
    | some (.error x) => some (.error x)
    | some (.ok w') => applyMsgs ds stake ms w'

def balDiffs (model impl : Ledger) (skip : List Addr) : List String :=
  let accts := (model.accounts ++ impl.accounts).eraseDups.filter (fun a => !skip.contains a)
  accts.filterMap (fun a => if Coins.beq (model.bal a) (impl.bal a) then none
    else some s!"bal[{a}]:model={Coins.toStr (model.bal a)},impl={Coins.toStr (impl.bal a)}")

def propOfKind (kind : String) : String :=
  if kind.startsWith "oracle.createTask" || kind.startsWith "oracle.respond" || kind.startsWith "oracle.deleteTask" then "C15"
  else if kind.startsWith "oracle." then "C14"
  else if kind.startsWith "gov.deposit" then "C11"
  else if kind.startsWith "gov.submit" then "C11,C12"
  else if kind.startsWith "gov." then "C12"
  else if kind.startsWith "cert." then "C13"
  else if kind.startsWith "cvm." || kind.startsWith "failed:cvm." then "C18"
  else if kind.startsWith "bank.lockedSend" || kind.startsWith "auth." then "C19"
  else "C01"

/-- compare the model's world with the observed one; one finding per differing fact -/
def compareWorld (ds : DS) (tag : String) (w : MW) (skipAccts : List Addr) : IO DS := do
  let mut ds := ds
  if ds.hasOracle then
    for x in OracleD.diffFacts (OracleD.facts w.o) (OracleD.facts ds.oracle) do
      ds ← finding ds "diverge" (OracleD.propsOfFact x) s!"state:{tag}" x
  if ds.hasGov then
    for x in GovD.diffFacts (GovD.govFacts w.g) (GovD.govFacts ds.gov) do
      ds ← finding ds "diverge" (GovD.propsOfGovFact x) s!"state:{tag}" x
  if ds.hasCert then
    for x in GovD.diffFacts (GovD.certFacts w.c) (GovD.certFacts ds.cert) do
      ds ← finding ds "diverge" "C13" s!"state:{tag}" x
  if ds.hasVest then
    for x in BankVmD.diffFacts (BankVmD.vestingFacts w.v) (BankVmD.vestingFacts ds.vest) do
      ds ← finding ds "diverge" "C19" s!"state:{tag}" x
  if ds.hasCvm then
    for x in BankVmD.diffFacts (BankVmD.cvmFacts w.k) (BankVmD.cvmFacts ds.cvm) do
      ds ← finding ds "diverge" "C18" s!"state:{tag}" x
  for x in balDiffs w.l ds.ledger skipAccts do
    ds ← finding ds "diverge" (propOfKind tag ++ ",C01") s!"balance:{tag}" x
  return ds

def noteStatuses (ds : DS) : DS :=
  { ds with seenStatus := ds.gov.proposals.foldl (fun acc p =>
      if acc.any (·.1 == p.id) then acc.map (fun e => if e.1 == p.id && !e.2.contains p.status then (e.1, e.2 ++ [p.status]) else e)
      else acc ++ [(p.id, [p.status])]) ds.seenStatus }

/-- monitors evaluated on every observed state -/
def runMonitors (ds : DS) (afterBegin boundary : Bool) : IO DS := do
  let mut ds := ds
  if ds.hasOracle then
    let s := ds.oracle
    ds := stat ds "mon.evaluated"
    if !OracleD.monTotalIsSum s then
      ds ← finding ds "monitor" "C14" "total_is_sum" s!"total={Coins.toStr s.total} sum={Coins.toStr (OracleD.sumColl s)}"
    let mb := ds.ledger.bal (ds.sys.modAddr "oracle")
    if !OracleD.monFunded mb s then
      ds ← finding ds "monitor" "C14" "funded" s!"modbal={Coins.toStr mb} total={Coins.toStr s.total} pending={Coins.toStr (OracleD.sumPending s)} rewards={Coins.toStr (OracleD.sumRewards s)}"
    if afterBegin && !OracleD.monNoOverdue ds.h s then
      ds ← finding ds "monitor" "C14" "no_overdue" s!"h={ds.h} wds={String.intercalate ";" (s.wds.map OracleD.showWd)}"
    if !OracleD.monResponsesValid s then
      ds ← finding ds "monitor" "C15" "responses_valid" (String.intercalate ";" (s.tasks.map OracleD.showTask))
    for (a, d) in ds.dep do
      let coll := ((s.ops.find? (·.addr == a)).map (·.coll)).getD []
      let pend := (s.wds.filter (·.addr == a)).foldl (fun acc w => Coins.add acc w.amt) []
      let rhs := Coins.add (Coins.add coll pend) (getOf ds.ret a)
      if !Coins.beq d rhs then
        ds ← finding ds "monitor" "C14" "collateral_conserved" s!"acct={a} deposited={Coins.toStr d} collateral={Coins.toStr coll} pending={Coins.toStr pend} returned={Coins.toStr (getOf ds.ret a)}"
  if ds.hasGov then
    ds := stat ds "mon.evaluated"
    let g := ds.gov
    let mb := ds.ledger.bal (ds.sys.modAddr "gov")
    if boundary && !GovD.monEscrowExact mb g then
      ds ← finding ds "monitor" "C11" "escrow_exact" s!"modbal={Coins.toStr mb} owed={Coins.toStr (GovD.escrowOwed g)}"
    if boundary then
      for x in GovD.monNoOrphanDeposit g do ds ← finding ds "monitor" "C11" "no_deposit_after_end" x
    for x in GovD.monDepositSum g do ds ← finding ds "monitor" "C11" "deposit_records_sum" x
  -- C01: balances add up to the recorded supply, in every denomination
  ds := stat ds "mon.c01.ledger"
  if !ds.ledger.invB then
    let bad := (ds.ledger.denomsAll.filter (fun d => ds.ledger.total d != Coins.amountOf ds.ledger.supply d)).map (fun d =>
      s!"{d}: balances {ds.ledger.total d} supply {Coins.amountOf ds.ledger.supply d}")
    ds ← finding ds "monitor" "C01" "balances_equal_supply" (String.intercalate "; " bad)
  if ds.hasVest then
    for x in BankVmD.monLockedAccountedFor "uctk" ds.ledger ds.vest ds.staked do ds ← finding ds "monitor" "C19" "locked_coins_present" x
    for x in BankVmD.monVestedLeOriginal ds.vest do ds ← finding ds "monitor" "C19" "unlocked_le_locked" x
  if ds.hasCert then
    let c := ds.cert
    for x in GovD.monAliasUnique c do ds ← finding ds "monitor" "C13" "alias_unique" x
    for x in GovD.monAliasIndex c do ds ← finding ds "monitor" "C13" "alias_unique" x
    if !GovD.monIdsUnique c then ds ← finding ds "monitor" "C13" "fresh_id" (String.intercalate ";" (GovD.certFacts c))
    for x in ds.certUnret do ds ← finding ds "monitor" "C13" "certificate_retrievable" x
  return ds

/-- transition monitors of gov/cert that hold for every kind of step -/
def transitionMonitors (ds : DS) (preG : Gov.State) (preC : Cert.State) (isEnd : Bool) : IO DS := do
  let mut ds := ds
  if ds.hasGov then
    for x in GovD.monStatusForward preG ds.gov do ds ← finding ds "monitor" "C12" "status_forward" x
    for x in GovD.monRouting preG ds.gov do ds ← finding ds "monitor" "C12" "round_routing" x
    for x in GovD.monPassPath preG ds.gov do ds ← finding ds "monitor" "C12" "pass_needs_rounds" x
    -- upgrades and claims that pass must have been seen in the certifier round as well
    for p in ds.gov.proposals do
      let before := ((preG.proposals.find? (·.id == p.id)).map (·.status)).getD 0
      if p.status == 4 && before != 4 && (p.kind == "upgrade" || p.kind == "claim") then
        let seen := ((ds.seenStatus.find? (·.1 == p.id)).map (·.2)).getD []
        if !(seen.contains 2 && seen.contains 3) then
          ds ← finding ds "monitor" "C12" "pass_needs_rounds" s!"passed-without-both-rounds:{p.id}:{p.kind}:seen={seen}"
  if ds.hasCert then
    -- the council changes only when a certifier-update proposal passes (in an EndBlock)
    if GovD.certifierSet preC != GovD.certifierSet ds.cert then
      let passedNow := ds.gov.proposals.filter (fun p => p.kind == "certifierUpdate" && p.status == 4 &&
        ((preG.proposals.find? (·.id == p.id)).map (·.status)).getD 0 != 4)
      if !isEnd || passedNow.isEmpty then
        ds ← finding ds "monitor" "C13" "council_changes_only_by_governance" s!"before={GovD.certifierSet preC} after={GovD.certifierSet ds.cert}"
      else
        ds := stat ds "sit.c13.council_changed"
        -- every change must be the content of a proposal that passed now
        let added := ds.cert.certifiers.filter (fun x => !(preC.certifiers.any (·.addr == x.addr)))
        let removed := preC.certifiers.filter (fun x => !(ds.cert.certifiers.any (·.addr == x.addr)))
        for x in added do
          if !(passedNow.any (fun p => p.cuAdd && p.cuCertifier == x.addr && p.cuAlias == x.alias)) then
            ds ← finding ds "monitor" "C13" "council_changes_only_by_governance" s!"added-without-proposal:{x.addr}|{x.alias}"
        for x in removed do
          if !(passedNow.any (fun p => !p.cuAdd && p.cuCertifier == x.addr)) then
            ds ← finding ds "monitor" "C13" "council_changes_only_by_governance" s!"removed-without-proposal:{x.addr}"
    if !preC.certifiers.isEmpty && ds.cert.certifiers.isEmpty then
      ds ← finding ds "monitor" "C13" "council_never_empty" s!"before={GovD.certifierSet preC}"
  return noteStatuses ds

def handleTx (ds : DS) (j : Json) : IO DS := do
  let pre : MW := { l := ds.ledger, o := ds.oracle, g := ds.gov, c := ds.cert, v := ds.vest, k := ds.cvm, accts := ds.accounts }
  let preStake := ds.stake
  let signer := J.strOf j "signerAddr"
  let fee : Coins := if J.intOf j "fee" > 0 then [("uctk", J.intOf j "fee")] else []
  let code := J.intOf j "code"
  let msgs := J.arrOf j "m"
  let kind := String.intercalate "+" (msgs.map (J.strOf · "t"))
  let mut ds := loadObs ds (J.get j "st")
  ds := stat ds s!"tx.{kind}.{if code == 0 then "ok" else "fail"}"
  -- ante: fee deduction (from spendable coins; an account that does not exist or cannot pay fails before any message runs)
  let lFee := pre.l.move signer (ds.sys.modAddr "fee_collector") fee
  let anteOk := match Vesting.canSpend pre.l pre.v signer fee with | .ok _ => true | .error _ => false
  let anteOk := anteOk && (!ds.hasVest || pre.accts.contains signer)
  match (if anteOk then applyMsgs ds preStake msgs { pre with l := lFee } else some (.error ⟨"basic:ante"⟩)) with
  | none => ds := stat ds "tx.unmodelled"
  | some r =>
    ds := stat ds "tx.validated"
    match r with
    | .error x =>
      if code == 0 then
        ds ← finding ds "diverge" (propOfKind kind) s!"result:{kind}" s!"model=fail({x.kind}) impl=ok {(Json.arr msgs.toArray).compress}"
      else
        -- a failed transaction changes nothing but the fee (and not even that when ValidateBasic rejects it)
        ds ← compareWorld ds s!"failed:{kind}" (if x.isBasic then pre else { pre with l := lFee }) []
    | .ok w' =>
      if code != 0 then
        ds ← finding ds "diverge" (propOfKind kind) s!"result:{kind}" s!"model=ok impl=fail(code={code},log={J.strOf j "log"}) {(Json.arr msgs.toArray).compress}"
      else
        ds ← compareWorld ds kind w' []
  if ds.nSample < 3 && code == 0 then
    IO.println ("SAMPLE " ++ (Json.mkObj [("op", Json.arr msgs.toArray), ("signer", J.get j "signer"), ("h", J.get j "h"), ("code", J.get j "code")]).compress)
    ds := { ds with nSample := ds.nSample + 1 }
  if ds.hasOracle then
    for x in OracleD.monStatusChanges pre.o ds.oracle false ds.h do
      ds ← finding ds "monitor" "C15" "aggregated_once_at_closing" x
  if code == 0 then
    for m in msgs do
      match J.strOf m "t" with
      | "oracle.respond" =>
        ds := stat ds "mon.c15.respond"
        if !OracleD.monRespondAccepted pre.o ds.h (J.strOf m "contract") (J.strOf m "function") (J.intOf m "score") (J.strOf m "op") then
          ds ← finding ds "monitor" "C15" "response_accepted_wrongly" (m.compress)
      | "oracle.deleteTask" =>
        ds := stat ds "mon.c15.delete"
        if !OracleD.monDeleteAccepted pre.o ds.h ds.t (J.strOf m "contract") (J.strOf m "function") (J.boolOf m "force") (J.strOf m "deleter") then
          ds ← finding ds "monitor" "C15" "task_removed_wrongly" (m.compress)
      | "oracle.createOperator" => ds := { ds with dep := addTo ds.dep (J.strOf m "addr") (J.coinsOf m "coll") }
      | "oracle.addCollateral" => ds := { ds with dep := addTo ds.dep (J.strOf m "addr") (J.coinsOf m "amt") }
      | "gov.vote" =>
        ds := stat ds "mon.c12.vote"
        match GovD.monVoteAccepted pre.g pre.c (J.intOf m "pid").toNat (J.strOf m "voter") (J.intOf m "option").toNat with
        | some x => ds ← finding ds "monitor" "C12" "vote_eligibility" (x ++ " " ++ m.compress)
        | none => pure ()
      | "gov.deposit" =>
        -- the depositor paid exactly the amount into escrow
        let amt := J.coinsOf m "amt"
        let d := J.strOf m "depositor"
        let paid := Coins.sub (Coins.sub (pre.l.bal d) (ds.ledger.bal d)) (if d == signer then fee else [])
        if !Coins.beq paid amt then ds ← finding ds "monitor" "C11" "deposit_escrowed" s!"depositor paid {Coins.toStr paid} for a deposit of {Coins.toStr amt}"
      | "cert.issue" =>
        ds := stat ds "mon.c13.issue"
        if !Cert.isCertifier pre.c signer then ds ← finding ds "monitor" "C13" "only_certifiers_certify" s!"issued by non-certifier {signer}"
        let fresh := ds.cert.certs.filter (fun x => !(pre.c.certs.any (·.id == x.id)))
        if fresh.length != 1 || fresh.any (fun x => x.id < pre.c.nextId) || ds.cert.nextId ≤ pre.c.nextId then
          ds ← finding ds "monitor" "C13" "fresh_id" s!"nextId {pre.c.nextId}->{ds.cert.nextId} new={fresh.map (·.id)}"
      | "cert.platform" =>
        if !Cert.isCertifier pre.c signer then ds ← finding ds "monitor" "C13" "only_certifiers_certify" s!"platform certified by non-certifier {signer}"
      | "cert.revoke" =>
        ds := stat ds "mon.c13.revoke"
        if !Cert.isCertifier pre.c signer then ds ← finding ds "monitor" "C13" "only_certifiers_certify" s!"revoked by non-certifier {signer}"
      | _ => pure ()
  if ds.hasCert then
    -- certificates stay retrievable (unchanged) unless this transaction revoked them
    let revoked := if code == 0 then msgs.filterMap (fun m => if J.strOf m "t" == "cert.revoke" then some (J.intOf m "id").toNat else none) else []
    for x in pre.c.certs do
      if !(revoked.contains x.id) && !(ds.cert.certs.any (fun y => y == x)) then
        ds ← finding ds "monitor" "C13" "certificate_retrievable" s!"certificate {x.id} ({x.kind},{x.content},{x.certifier}) disappeared or changed"
  if ds.hasVest then
    for x in BankVmD.monUnlockerImmutable pre.v ds.vest do ds ← finding ds "monitor" "C19" "unlocker_immutable" x
    for x in BankVmD.monMonotone pre.v ds.vest do ds ← finding ds "monitor" "C19" "vesting_monotone" x
    -- the unlocked total changes only by an unlock signed by the designated unlocker (or a shield payout)
    for m0 in pre.v do
      match ds.vest.find? (·.addr == m0.addr) with
      | some m1 =>
        if !(Coins.beq m0.vested m1.vested) then
          let okUnlock := code == 0 && msgs.any (fun m => J.strOf m "t" == "auth.unlock" && J.strOf m "account" == m0.addr && J.strOf m "issuer" == m0.unlocker && signer == m0.unlocker)
          if !okUnlock then ds ← finding ds "monitor" "C19" "only_unlocker_unlocks" s!"{m0.addr}: vested {Coins.toStr m0.vested}->{Coins.toStr m1.vested} by {kind} signed {signer}"
      | none => pure ()
  if ds.hasCvm then
    for m in msgs do
      if J.strOf m "t" == "cvm.call" then
        ds := stat ds s!"sit.c18.call.{J.strOf m "kind"}.{if code == 0 then "ok" else "fail"}"
        -- a call into a program that reverts / aborts / loops must be reported as failed
        if J.strOf m "expect" == "fail" && code == 0 then
          ds ← finding ds "monitor" "C18" "failure_reported" s!"call to a {J.strOf m "kind"} contract returned code 0"
        -- LOG events of a reverted inner call must not appear in the transaction's events
        if code == 0 && J.strOf m "targetKind" == "logRevert" && (J.arrOf j "logs").any (fun a => J.str a == J.strOf m "target") then
          ds ← finding ds "monitor" "C18" "reverted_inner_call_leaves_event" s!"LOG of reverted inner call to {J.strOf m "target"} persisted"
    if code != 0 && !(J.arrOf j "logs").isEmpty then
      ds ← finding ds "monitor" "C18" "failed_tx_leaves_event" (Json.arr (J.arrOf j "logs").toArray).compress
  ds ← transitionMonitors ds pre.g pre.c false
  runMonitors ds false false

def handleView (ds : DS) (j : Json) : IO DS := do
  -- a read-only execution: no observed module may have changed
  let mut ds := stat ds "sit.c18.view"
  match J.get j "st" with
  | .obj kvs =>
    for (k, _) in kvs.toList do
      ds ← finding ds "monitor" "C18" "view_modifies_state" s!"module {k} changed by a read-only execution of a {J.strOf j "kind"} contract"
  | _ => pure ()
  return loadObs ds (J.get j "st")

def handleBegin (ds : DS) (j : Json) : IO DS := do
  let pre : MW := { l := ds.ledger, o := ds.oracle, g := ds.gov, c := ds.cert, v := ds.vest, k := ds.cvm, accts := ds.accounts }
  let mut ds := { ds with h := J.intOf j "h", t := J.intOf j "t" }
  if J.has j "panic" then
    ds ← finding ds "panic" "C08" ("begin:" ++ J.strOf (J.get j "panic") "site") (J.strOf (J.get j "panic") "value")
    return ds
  ds := loadObs ds (J.get j "st")
  ds := stat ds "block.begin"
  let mut w := pre
  if ds.hasOracle then
    for (a, _) in ds.dep do
      let delta := Coins.sub (ds.ledger.bal a) (pre.l.bal a)
      if !Coins.isZero delta then
        ds := { ds with ret := addTo ds.ret a delta }
        ds := stat ds "sit.c14.withdrawal_paid"
    match Oracle.beginBlock (oracleEnv ds) pre.l pre.o with
    | .error x => ds ← finding ds "diverge" "C14,C08" "begin:model-panics" x.kind
    | .ok (l', o') => w := { w with l := l', o := o' }
  ds ← compareWorld ds "begin" w ds.sys.systemAccts
  ds ← transitionMonitors ds pre.g pre.c false
  runMonitors ds true false

def handleEnd (ds : DS) (j : Json) : IO DS := do
  let pre : MW := { l := ds.ledger, o := ds.oracle, g := ds.gov, c := ds.cert, v := ds.vest, k := ds.cvm, accts := ds.accounts }
  let mut ds := ds
  if J.has j "panic" then
    ds ← finding ds "panic" "C08" ("end:" ++ J.strOf (J.get j "panic") "site") (J.strOf (J.get j "panic") "value")
    return ds
  ds := loadObs ds (J.get j "st")
  -- the staking end-blocker runs before governance's: the tally reads the staking state as it is after this block
  let preStake := ds.stake
  ds := stat ds "block.end"
  let mut w := pre
  let mut modelOk := true
  if ds.hasGov then
    -- gov runs before oracle in the end-blocker order; they share nothing but the ledger
    if pre.g.proposals.any (fun p => p.kind == "claim" && GovD.liveStatus p.status) then
      modelOk := false   -- claims are validated by the shield engine
      ds := stat ds "end.gov_unmodelled_claim"
    else match Gov.endBlock (govEnv ds preStake) { l := w.l, g := w.g, c := w.c } with
      | .error x => ds ← finding ds "diverge" "C11,C08" "end:gov-model-panics" x.kind; modelOk := false
      | .ok x => w := { w with l := x.l, g := x.g, c := x.c }
  if ds.hasOracle then
    match Oracle.endBlock (oracleEnv ds) w.o with
    | .error x => ds ← finding ds "diverge" "C15,C08" "end:model-panics" x.kind; modelOk := false
    | .ok o' => w := { w with o := o' }
    if !(Oracle.closingAt pre.o ds.h).isEmpty then ds := stat ds "sit.c15.tasks_closed_blocks"
  if modelOk then ds ← compareWorld ds "end" w ds.sys.systemAccts
  if ds.hasOracle then
    for x in OracleD.monStatusChanges pre.o ds.oracle true ds.h do
      ds ← finding ds "monitor" "C15" "aggregated_once_at_closing" x
    for x in OracleD.monNoMissedAggregation ds.oracle ds.h do
      ds ← finding ds "monitor" "C15" "aggregated_once_at_closing" ("pending-after-closing-block:" ++ x)
    for t in ds.oracle.tasks do
      match OracleD.findT pre.o t with
      | some p =>
        if p.status == 1 && t.status != 1 then
          ds := stat ds (if t.status == 2 then "sit.c15.task_succeeded" else "sit.c15.task_failed")
          match OracleD.monAggregation "uctk" pre.o p t with
          | some x => ds ← finding ds "monitor" "C15" "aggregation_result" x
          | none => pure ()
      | none => pure ()
    for x in OracleD.monBounty pre.o ds.oracle ds.h do
      ds ← finding ds "monitor" "C15" "bounty_bounded" x
  if ds.hasGov then
    -- C11: what left escrow went back to the depositors or was burned, exactly
    let finalised := pre.g.proposals.filter (fun p => GovD.liveStatus p.status &&
      !((ds.gov.proposals.find? (·.id == p.id)).any (fun q => GovD.liveStatus q.status)))
    let released := (pre.g.deposits.filter (fun d => finalised.any (·.id == d.pid)))
    let burned := Coins.sub pre.l.supply ds.ledger.supply
    if !finalised.isEmpty then ds := stat ds "sit.c11.proposals_finalised"
    if !(Coins.isZero burned) then ds := stat ds "sit.c11.deposits_burned"
    let depositors := (released.map (·.depositor)).eraseDups
    let mut back : Coins := []
    for a in depositors do
      back := Coins.add back (Coins.sub (ds.ledger.bal a) (pre.l.bal a))
    let total := released.foldl (fun acc d => Coins.add acc d.amount) ([] : Coins)
    if !Coins.beq total (Coins.add back burned) then
      ds ← finding ds "monitor" "C11" "refund_or_burn_exact" s!"released={Coins.toStr total} returned={Coins.toStr back} burned={Coins.toStr burned} proposals={finalised.map (·.id)}"
    if Coins.isZero burned then
      for a in depositors do
        let mine := (released.filter (·.depositor == a)).foldl (fun acc d => Coins.add acc d.amount) ([] : Coins)
        let got := Coins.sub (ds.ledger.bal a) (pre.l.bal a)
        if !Coins.beq mine got then
          ds ← finding ds "monitor" "C11" "refund_or_burn_exact" s!"depositor {a} had {Coins.toStr mine} in escrow, received {Coins.toStr got}"
    -- C12: outcome of each round, restated independently
    for p in pre.g.proposals do
      match ds.gov.proposals.find? (·.id == p.id) with
      | none => pure ()
      | some q =>
        let votes := pre.g.votes.filter (·.pid == p.id)
        if p.status == 3 && q.status != 3 && p.kind != "claim" then
          ds := stat ds s!"sit.c12.stake_round_ended.{q.status}"
          let tp := if p.kind == "certifierUpdate" then pre.g.params.certStake else pre.g.params.default
          let (pass, veto, decisive) := GovD.specStakeRule preStake votes tp
          if decisive then
            let passed := q.status == 4 || q.status == 6
            if pass != passed then
              ds ← finding ds "monitor" "C12" "stake_round_rule" s!"proposal {p.id} ({p.kind}): rule says pass={pass} veto={veto}, status {q.status}; votes={votes.map (fun v => (v.voter, v.option))}"
            if finalised.length == 1 then
              -- a vetoed proposal's deposits are burned, exactly; nothing is burned otherwise
              let expected : Coins := if veto then total else []
              if !Coins.beq burned expected then
                ds ← finding ds "monitor" "C11" "veto_burns" s!"proposal {p.id}: veto={veto} deposits={Coins.toStr total} burned={Coins.toStr burned}"
          else ds := stat ds "sit.c12.rule_too_close_to_call"
        if p.status == 2 && q.status != 2 then
          ds := stat ds s!"sit.c12.certifier_round_ended.{q.status}"
          let (pass, decisive) := GovD.specSecurityRule pre.c.certifiers.length votes pre.g.params.security
          -- the head count is taken when the proposal is tallied: decisive only if the council did not change in this block
          if decisive && pre.c.certifiers.length == ds.cert.certifiers.length then
            if p.kind == "certifierUpdate" then
              if pass != (q.status == 4 || q.status == 6) && !(q.status == 3 && !pass) then
                ds ← finding ds "monitor" "C12" "certifier_round_rule" s!"proposal {p.id}: certifiers pass={pass}, status {q.status}"
            else
              if pass != (q.status == 3) then
                ds ← finding ds "monitor" "C12" "certifier_round_rule" s!"proposal {p.id} ({p.kind}): certifiers pass={pass}, status {q.status}"
  ds ← transitionMonitors ds pre.g pre.c true
  runMonitors ds false true

partial def loop (hIn : IO.FS.Stream) (ds : DS) : IO DS := do
  let line ← hIn.getLine
  if line.isEmpty then return ds
  match Json.parse line with
  | .error e =>
    IO.println s!"PARSE-ERROR line {ds.line}: {e}"
    loop hIn { ds with line := ds.line + 1 }
  | .ok j =>
    let ds := { ds with line := ds.line + 1 }
    let ds ← match J.strOf j "k" with
      | "genesis" => do
        let names := match J.get j "names" with
          | .obj kvs => kvs.toList.map (fun (k, v) => (k, J.str v))
          | _ => []
        let ds0 : DS := { sys := { names := names }, hist := J.intOf j "seed", line := ds.line, h := J.intOf j "h", t := J.intOf j "t",
                          stats := ds.stats, nFind := ds.nFind, nSample := ds.nSample }
        let ds0 := noteStatuses (loadObs ds0 (J.get j "st"))
        runMonitors (stat ds0 "history") false true
      | "tx" => handleTx ds j
      | "begin" => handleBegin ds j
      | "end" => handleEnd ds j
      | "view" => handleView ds j
      | _ => pure ds
    loop hIn ds

def main : IO Unit := do
  let ds ← loop (← IO.getStdin) {}
  for (k, v) in ds.stats do
    IO.println s!"STAT {k} {v}"
  IO.println s!"DONE findings={ds.nFind} lines={ds.line}"
