import Drivers.Common
import Drivers.OracleD
/-
  Chain driver: reads the trace of the real application (one JSON object per line),
  runs the model on every operation from the *observed* pre-state, compares the
  model's post-state with the observed post-state, and evaluates the monitors on
  every observed state.  Output: one JSON object per finding, then statistics.
-/
open Lean Shentu Drivers

structure DS where
  sys : Sys := default
  hist : Int := 0
  line : Nat := 0
  h : Int := 0
  t : Int := 0
  ledger : Ledger := default
  oracle : Oracle.State := default
  hasOracle : Bool := false
  -- C14 ghost ledger (from observations only)
  dep : List (Addr × Coins) := []
  ret : List (Addr × Coins) := []
  stats : List (String × Nat) := []
  nFind : Nat := 0
  seen : List String := []          -- (kind,name) already reported in this history
  nSample : Nat := 0

def addTo (m : List (Addr × Coins)) (a : Addr) (c : Coins) : List (Addr × Coins) :=
  if m.any (·.1 == a) then m.map (fun e => if e.1 == a then (e.1, Coins.add e.2 c) else e) else m ++ [(a, c)]
def getOf (m : List (Addr × Coins)) (a : Addr) : Coins := ((m.find? (·.1 == a)).map (·.2)).getD []

def finding (ds : DS) (kind prop name detail : String) : IO DS := do
  let key := kind ++ "/" ++ name
  if ds.seen.contains key then return { ds with nFind := ds.nFind + 1 }
  let ds := { ds with seen := key :: ds.seen }
  let j := Json.mkObj [("kind", kind), ("prop", prop), ("name", name), ("hist", toString ds.hist), ("line", toString ds.line),
                       ("h", toString ds.h), ("detail", detail)]
  IO.println ("FINDING " ++ j.compress)
  return { ds with nFind := ds.nFind + 1 }

def stat (ds : DS) (k : String) : DS := { ds with stats := bump ds.stats k }

def loadObs (ds : DS) (st : Json) : DS := Id.run do
  let mut ds := ds
  if J.has st "bank" then ds := { ds with ledger := parseLedger (J.get st "bank") }
  if J.has st "oracle" then ds := { ds with oracle := OracleD.parseState (J.get st "oracle"), hasOracle := true }
  return ds

def oracleEnv (ds : DS) : Oracle.Env := { h := ds.h, t := ds.t, bond := "uctk", modAddr := ds.sys.modAddr "oracle" }

/-- apply one message of the trace to the model; `none` = message kind not modelled -/
def applyMsg (ds : DS) (l : Ledger) (o : Oracle.State) (m : Json) : Option (Except Err (Ledger × Oracle.State)) :=
  let e := oracleEnv ds
  match J.strOf m "t" with
  | "oracle.createOperator" => some (Oracle.createOperator e l o (J.strOf m "addr") (J.coinsOf m "coll") (J.strOf m "proposer"))
  | "oracle.removeOperator" => some (Oracle.removeOperator e l o (J.strOf m "addr"))
  | "oracle.addCollateral" => some (Oracle.addCollateral e l o (J.strOf m "addr") (J.coinsOf m "amt"))
  | "oracle.reduceCollateral" => some (Oracle.reduceCollateral e l o (J.strOf m "addr") (J.coinsOf m "amt"))
  | "oracle.withdrawReward" => some (Oracle.withdrawReward e l o (J.strOf m "addr"))
  | "oracle.createTask" => some (Oracle.createTask e l o (J.strOf m "contract") (J.strOf m "function") (J.coinsOf m "bounty")
                                    (J.strOf m "creator") (J.intOf m "wait") (J.intOf m "valid"))
  | "oracle.respond" => some ((Oracle.respond e o (J.strOf m "contract") (J.strOf m "function") (J.intOf m "score") (J.strOf m "op")).map (fun o' => (l, o')))
  | "oracle.deleteTask" => some ((Oracle.deleteTask e o (J.strOf m "contract") (J.strOf m "function") (J.boolOf m "force") (J.strOf m "deleter")).map (fun o' => (l, o')))
  | _ => none

def applyMsgs (ds : DS) : List Json → Ledger → Oracle.State → Option (Except Err (Ledger × Oracle.State))
  | [], l, o => some (.ok (l, o))
  | m :: ms, l, o =>
    match applyMsg ds l o m with
    | none => none
    | some (.error x) => some (.error x)
    | some (.ok (l', o')) => applyMsgs ds ms l' o'

def balDiffs (model impl : Ledger) (skip : List Addr) : List String :=
  let accts := (model.accounts ++ impl.accounts).eraseDups.filter (fun a => !skip.contains a)
  accts.filterMap (fun a => if Coins.beq (model.bal a) (impl.bal a) then none
    else some s!"bal[{a}]:model={Coins.toStr (model.bal a)},impl={Coins.toStr (impl.bal a)}")

/-- monitors evaluated on every observed state -/
def runMonitors (ds : DS) (afterBegin : Bool) : IO DS := do
  let mut ds := ds
  if ds.hasOracle then
    let s := ds.oracle
    ds := stat ds "mon.evaluated"
    if !OracleD.monTotalIsSum s then
      ds ← finding ds "monitor" "C14" "total_is_sum" s!"total={Coins.toStr s.total} sum={Coins.toStr (OracleD.sumColl s)}"
    let mb := ds.ledger.bal (ds.sys.modAddr "oracle")
    if !OracleD.monFunded mb s then
      ds ← finding ds "monitor" "C14" "funded" s!"modbal={Coins.toStr mb} total={Coins.toStr s.total} pending={Coins.toStr (OracleD.sumPending s)} rewards={Coins.toStr (OracleD.sumRewards s)}"
    if afterBegin && !OracleD.monNoOverdue ds.h s then
      ds ← finding ds "monitor" "C14" "no_overdue" s!"h={ds.h} wds={String.intercalate ";" (s.wds.map OracleD.showWd)}"
    if !OracleD.monResponsesValid s then
      ds ← finding ds "monitor" "C15" "responses_valid" (String.intercalate ";" (s.tasks.map OracleD.showTask))
    -- C14 conservation: deposited = collateral + pending + returned, per account and denomination
    for (a, d) in ds.dep do
      let coll := ((s.ops.find? (·.addr == a)).map (·.coll)).getD []
      let pend := (s.wds.filter (·.addr == a)).foldl (fun acc w => Coins.add acc w.amt) []
      let rhs := Coins.add (Coins.add coll pend) (getOf ds.ret a)
      if !Coins.beq d rhs then
        ds ← finding ds "monitor" "C14" "collateral_conserved" s!"acct={a} deposited={Coins.toStr d} collateral={Coins.toStr coll} pending={Coins.toStr pend} returned={Coins.toStr (getOf ds.ret a)}"
  return ds

def handleTx (ds : DS) (j : Json) : IO DS := do
  let preL := ds.ledger
  let preO := ds.oracle
  let signer := J.strOf j "signerAddr"
  let fee : Coins := if J.intOf j "fee" > 0 then [("uctk", J.intOf j "fee")] else []
  let code := J.intOf j "code"
  let msgs := J.arrOf j "m"
  let kind := String.intercalate "+" (msgs.map (J.strOf · "t"))
  let mut ds := loadObs ds (J.get j "st")
  ds := stat ds s!"tx.{kind}.{if code == 0 then "ok" else "fail"}"
  -- ante: fee deduction
  let lFee := preL.move signer (ds.sys.modAddr "fee_collector") fee
  match applyMsgs ds msgs lFee preO with
  | none => ds := stat ds "tx.unmodelled"
  | some r =>
    ds := stat ds "tx.validated"
    match r with
    | .error x =>
      if code == 0 then
        ds ← finding ds "diverge" (if kind.startsWith "oracle.createTask" || kind.startsWith "oracle.respond" || kind.startsWith "oracle.deleteTask" then "C15" else "C14") s!"result:{kind}" s!"model=fail({x.kind}) impl=ok"
      else
        -- failed tx: nothing but the fee may change
        let d := balDiffs lFee ds.ledger []
        let f := OracleD.diffFacts (OracleD.facts preO) (OracleD.facts ds.oracle)
        if !d.isEmpty || !f.isEmpty then
          ds ← finding ds "diverge" "C14,C15" s!"failed-tx-changed-state:{kind}" (String.intercalate " " (d ++ f))
    | .ok (l', o') =>
      if code != 0 then
        ds ← finding ds "diverge" (if kind.startsWith "oracle.createTask" || kind.startsWith "oracle.respond" || kind.startsWith "oracle.deleteTask" then "C15" else "C14") s!"result:{kind}" s!"model=ok impl=fail(code={code},log={J.strOf j "log"})"
      else
        let f := OracleD.diffFacts (OracleD.facts o') (OracleD.facts ds.oracle)
        let d := balDiffs l' ds.ledger []
        for x in f do
          ds ← finding ds "diverge" (OracleD.propsOfFact x) s!"state:{kind}" x
        for x in d do
          ds ← finding ds "diverge" "C14,C01" s!"balance:{kind}" x
  if ds.nSample < 3 && code == 0 then
    IO.println ("SAMPLE " ++ (Json.mkObj [("op", Json.arr msgs.toArray), ("signer", J.get j "signer"), ("h", J.get j "h"), ("code", J.get j "code")]).compress)
    ds := { ds with nSample := ds.nSample + 1 }
  if ds.hasOracle then
    for x in OracleD.monStatusChanges preO ds.oracle false ds.h do
      ds ← finding ds "monitor" "C15" "aggregated_once_at_closing" x
  -- ghost ledger of C14 from observations
  if code == 0 then
    for m in msgs do
      match J.strOf m "t" with
      | "oracle.respond" =>
        ds := stat ds "mon.c15.respond"
        if !OracleD.monRespondAccepted preO ds.h (J.strOf m "contract") (J.strOf m "function") (J.intOf m "score") (J.strOf m "op") then
          ds ← finding ds "monitor" "C15" "response_accepted_wrongly" (m.compress)
      | "oracle.deleteTask" =>
        ds := stat ds "mon.c15.delete"
        if !OracleD.monDeleteAccepted preO ds.h ds.t (J.strOf m "contract") (J.strOf m "function") (J.boolOf m "force") (J.strOf m "deleter") then
          ds ← finding ds "monitor" "C15" "task_removed_wrongly" (m.compress)
      | _ => pure ()
    for m in msgs do
      match J.strOf m "t" with
      | "oracle.createOperator" => ds := { ds with dep := addTo ds.dep (J.strOf m "addr") (J.coinsOf m "coll") }
      | "oracle.addCollateral" => ds := { ds with dep := addTo ds.dep (J.strOf m "addr") (J.coinsOf m "amt") }
      | _ => pure ()
  runMonitors ds false

def handleBegin (ds : DS) (j : Json) : IO DS := do
  let preL := ds.ledger
  let preO := ds.oracle
  let mut ds := { ds with h := J.intOf j "h", t := J.intOf j "t" }
  if J.has j "panic" then
    ds ← finding ds "panic" "C08" ("begin:" ++ J.strOf (J.get j "panic") "site") (J.strOf (J.get j "panic") "value")
    return ds
  ds := loadObs ds (J.get j "st")
  ds := stat ds "block.begin"
  if ds.hasOracle then
    -- C14 ghost: what operators got back in this BeginBlock
    for (a, _) in ds.dep do
      let delta := Coins.sub (ds.ledger.bal a) (preL.bal a)
      if !Coins.isZero delta then
        ds := { ds with ret := addTo ds.ret a delta }
        ds := stat ds "c14.withdrawal_paid"
    match Oracle.beginBlock (oracleEnv ds) preL preO with
    | .error x => ds ← finding ds "diverge" "C14,C08" "begin:model-panics" x.kind
    | .ok (l', o') =>
      let f := OracleD.diffFacts (OracleD.facts o') (OracleD.facts ds.oracle)
      let d := balDiffs l' ds.ledger ds.sys.systemAccts
      for x in f do ds ← finding ds "diverge" "C14" "state:begin" x
      for x in d do ds ← finding ds "diverge" "C14,C01" "balance:begin" x
  runMonitors ds true

def handleEnd (ds : DS) (j : Json) : IO DS := do
  let preL := ds.ledger
  let preO := ds.oracle
  let mut ds := ds
  if J.has j "panic" then
    ds ← finding ds "panic" "C08" ("end:" ++ J.strOf (J.get j "panic") "site") (J.strOf (J.get j "panic") "value")
    return ds
  ds := loadObs ds (J.get j "st")
  ds := stat ds "block.end"
  if ds.hasOracle then
    match Oracle.endBlock (oracleEnv ds) preO with
    | .error x => ds ← finding ds "diverge" "C15,C08" "end:model-panics" x.kind
    | .ok o' =>
      let f := OracleD.diffFacts (OracleD.facts o') (OracleD.facts ds.oracle)
      let d := balDiffs preL ds.ledger ds.sys.systemAccts
      for x in f do ds ← finding ds "diverge" (OracleD.propsOfFact x) "state:end" x
      for x in d do ds ← finding ds "diverge" "C15,C01" "balance:end" x
      if !(Oracle.closingAt preO ds.h).isEmpty then ds := stat ds "c15.tasks_closed_blocks"
    for x in OracleD.monStatusChanges preO ds.oracle true ds.h do
      ds ← finding ds "monitor" "C15" "aggregated_once_at_closing" x
    for x in OracleD.monNoMissedAggregation ds.oracle ds.h do
      ds ← finding ds "monitor" "C15" "aggregated_once_at_closing" ("pending-after-closing-block:" ++ x)
    for t in ds.oracle.tasks do
      match OracleD.findT preO t with
      | some p =>
        if p.status == 1 && t.status != 1 then
          ds := stat ds (if t.status == 2 then "sit.c15.task_succeeded" else "sit.c15.task_failed")
          match OracleD.monAggregation "uctk" preO p t with
          | some x => ds ← finding ds "monitor" "C15" "aggregation_result" x
          | none => pure ()
      | none => pure ()
    for x in OracleD.monBounty preO ds.oracle ds.h do
      ds ← finding ds "monitor" "C15" "bounty_bounded" x
  runMonitors ds false

partial def loop (hIn : IO.FS.Stream) (ds : DS) : IO DS := do
  let line ← hIn.getLine
  if line.isEmpty then return ds
  match Json.parse line with
  | .error e =>
    IO.println s!"PARSE-ERROR line {ds.line}: {e}"
    loop hIn { ds with line := ds.line + 1 }
  | .ok j =>
    let ds := { ds with line := ds.line + 1 }
    let ds ← match J.strOf j "k" with
      | "genesis" => do
        let names := match J.get j "names" with
          | .obj kvs => kvs.toList.map (fun (k, v) => (k, J.str v))
          | _ => []
        let ds0 : DS := { sys := { names := names }, hist := J.intOf j "seed", line := ds.line, h := J.intOf j "h", t := J.intOf j "t",
                          stats := ds.stats, nFind := ds.nFind, nSample := ds.nSample }
        let ds0 := loadObs ds0 (J.get j "st")
        runMonitors (stat ds0 "history") false
      | "tx" => handleTx ds j
      | "begin" => handleBegin ds j
      | "end" => handleEnd ds j
      | _ => pure ds
    loop hIn ds

def main : IO Unit := do
  let ds ← loop (← IO.getStdin) {}
  for (k, v) in ds.stats do
    IO.println s!"STAT {k} {v}"
  IO.println s!"DONE findings={ds.nFind} lines={ds.line}"
