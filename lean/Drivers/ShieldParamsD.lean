import Shentu.Base.J
/-
  Profile "shieldparams" (C07): the shield module's withdraw period changed by the real handler of a parameter-change proposal,
  then a withdrawal request through the real keeper (harness/sim/gen_shieldparams.go).

  `C07.request_enqueued_at_full_period` says that a request is queued with completion exactly one withdraw period after the
  request, the period being the one in the module's state at that moment; the histories of the shield model keep the
  parameters constant, so "the module's state" has to be tied to the parameter store the chain reads.  This driver does that, on
  the observation alone:
    withdraw_waits_the_configured_period   (monitor, failing input) the request succeeded and an entry it queued completes
                                           EARLIER than request time + the period the parameter store holds;
    sparams:queue_entry                    (correspondence) the request did not queue exactly one entry of exactly the amount
                                           completing exactly at request time + period.
  Drivers only; no theorem depends on this file.
-/
namespace Shentu.ShieldParamsD
open Lean Shentu

structure Res where
  stats : List String := []
  findings : List (String × String × String × String) := []    -- kind, properties, name, detail

def check (j : Json) : Res := Id.run do
  if J.strOf j "probe" == "restore_absent" then
    -- C08 / C05: the claimed purchase is gone (expired while the claim was open), its purchaser still holds another purchase in the pool;
    -- the gov end-blocker calls RestoreShield outside any recover: it must return, and restore nothing (`C05.rejected_restores_absent`)
    if J.has j "skipped" then return { stats := ["sparams.restore_absent_skipped"] }
    let outcome := J.strOf j "outcome"
    let what := s!"RestoreShield(pool {J.intOf j "pool"}, {J.strOf j "purchaser"}, purchase {J.intOf j "purchase"} — not among the purchaser's {J.intOf j "entries"} purchases there): {outcome}; total shield {J.strOf j "total_before"} -> {J.strOf j "total_after"}"
    let mut r : Res := { stats := ["sparams.restore_absent"] }
    if (outcome.splitOn "panic").length > 1 then
      r := { r with findings := ("monitor", "C08,C05", "restore_of_an_expired_purchase_returns", what) :: r.findings }
    else if J.strOf j "total_before" != J.strOf j "total_after" then
      r := { r with findings := ("monitor", "C05", "restore_of_an_expired_purchase_restores_nothing", what) :: r.findings }
    return r
  let old := J.intOf j "old"
  let new := J.intOf j "new"
  let cls := if new > old then "longer" else if new < old then "shorter" else "same"
  if !J.boolOf j "accepted" then
    return { stats := [s!"sparams.{cls}.refused"] }
  let mut r : Res := { stats := [s!"sparams.{cls}.accepted"] }
  if J.has j "books_unchanged" && !J.boolOf j "books_unchanged" then
    r := { r with findings := ("diverge", "C07", "sparams:period_change_touches_the_books", s!"the parameter change {old} -> {new} itself changed the withdraw queue or the providers' books (C07P.period_change_does_not_touch_the_queue)") :: r.findings }
  if J.has j "skipped" then
    return { r with stats := "sparams.no_provider" :: r.stats }
  let stored := J.intOf j "stored"
  let now := J.intOf j "now"
  let amount := J.intOf j "amount"
  let err := J.strOf j "err"
  let queued := (J.arr (J.get j "queued")).map (fun e => match J.arr e with
    | [a, t] => ((J.str a).toInt?.getD 0, (J.str t).toInt?.getD 0)
    | _ => (0, 0))
  let what := s!"withdraw period {old} -> {new} ns by a parameter-change proposal (parameter store now holds {stored}); provider {J.strOf j "provider"} asks for {amount} at {now}; queued {queued}; error '{err}'"
  if stored != new then
    r := { r with findings := ("diverge", "C07", "sparams:stored_period", s!"the accepted value is not what the parameter store holds. {what}") :: r.findings }
  if err != "" then
    -- the amount is within the provider's free collateral: the request must succeed (C07.request_bounded)
    r := { r with findings := ("diverge", "C07", "sparams:request_refused", what) :: r.findings }
    return r
  r := { r with stats := "mon.c07.withdraw_waits_the_configured_period" :: r.stats }
  -- the configured period is the value the chain accepted (`new`), whatever the keeper reads back
  for (_, t) in queued do
    if t < now + new then
      r := { r with findings := ("monitor", "C07", "withdraw_waits_the_configured_period",
        s!"an entry completes {now + new - t} ns before the configured period is over. {what}") :: r.findings }
  if !(queued.length == 1 && queued.all (fun e => e.1 == amount && e.2 == now + new)) then
    if queued.all (fun e => e.2 ≥ now + new) then
      r := { r with findings := ("diverge", "C07", "sparams:queue_entry", what) :: r.findings }
  else r := { r with stats := "sparams.agree" :: r.stats }
  return r

end Shentu.ShieldParamsD
