import Shentu.Base.J
/-
  Profile "oracleparams" (C08): the oracle's task parameters changed by the real handler of a parameter-change proposal, then the
  real oracle.EndBlocker at the closing block of a task whose responses make the changed epsilon the whole divisor
  (harness/sim/gen_oracleparams.go).

  `C08.oracle_endBlock_never_halts(_reachable)` holds under `EndInv`, whose parameter part is `0 < eps1 ∧ 0 < eps2`; the
  histories of the oracle model keep the parameters constant, so that hypothesis has to be discharged against the code for every
  value the chain's parameter store can be brought to hold.  This driver does that:
    oracle_endblock_halts_under_accepted_params   (monitor, failing input) the parameter store ACCEPTED the value and the
                                                  end-blocker of the next closing block aborted;
    accepted_task_params_leave_the_domain          (correspondence) the store accepted a non-positive epsilon and the probe did
                                                  not bring the end-blocker to abort: the hypothesis of the theorem is no
                                                  longer discharged.
  Drivers only; no theorem depends on this file.
-/
namespace Shentu.OracleParamsD
open Lean Shentu

structure Res where
  stats : List String := []
  findings : List (String × String × String × String) := []    -- kind, properties, name, detail

def startsWithPanic (s : String) : Bool := (s.splitOn "panic").length > 1

def check (j : Json) : Res := Id.run do
  let param := J.strOf j "param"
  let value := J.intOf j "value"
  let cls := if value < 0 then "negative" else if value == 0 then "zero" else if value == 1 then "one" else "positive"
  let what := s!"task parameters with {param} = {value} (threshold {J.strOf j "threshold"})"
  if !J.boolOf j "accepted" then
    let mut r : Res := { stats := [s!"oparams.{param}.{cls}.refused"] }
    if value > 0 then
      -- refusing a harmless value is no violation of C08; it is counted so that a probe that never gets through is visible
      r := { r with stats := "oparams.positive_value_refused" :: r.stats }
    return r
  let mut r : Res := { stats := [s!"oparams.{param}.{cls}.accepted"] }
  if J.has j "setup" then
    return { r with stats := "oparams.probe_not_set_up" :: r.stats }
  let endblock := J.strOf j "endblock"
  let st := J.get j "stored"
  let e1 := J.intOf st "epsilon1"
  let e2 := J.intOf st "epsilon2"
  if startsWithPanic endblock then
    r := { r with stats := "oparams.endblock_panics" :: r.stats,
                  findings := ("monitor", "C08", "oracle_endblock_halts_under_accepted_params",
                    s!"a parameter-change proposal setting {what} is accepted by the parameter store (stored epsilon1={e1} epsilon2={e2}); at the closing block {J.intOf j "closing"} of a task answered with " ++
                    (if param == "epsilon1" then "scores 0 and 10" else "scores 100 and 90") ++ s!" the oracle end-blocker aborts: {endblock}") :: r.findings }
  else
    r := { r with stats := s!"oparams.endblock_ok.{J.strOf j "status"}" :: r.stats }
    if e1 ≤ 0 || e2 ≤ 0 then
      r := { r with findings := ("diverge", "C08", "oparams:accepted_task_params_leave_the_domain",
        s!"{what} accepted (stored epsilon1={e1} epsilon2={e2}): outside EndInv, the hypothesis of C08.oracle_endBlock_never_halts; the probe's end-blocker returned") :: r.findings }
  return r

end Shentu.OracleParamsD
