import Shentu.Base.J
import Shentu.Model.Bank
/- Shared driver plumbing: observed-state cache, reporting, counters. -/
namespace Drivers
open Lean Shentu

structure Sys where
  names : List (String × Addr)      -- a0.., mod.<name>
  deriving Inhabited

def Sys.addr (s : Sys) (n : String) : Addr := ((s.names.find? (·.1 == n)).map (·.2)).getD ""
def Sys.modAddr (s : Sys) (n : String) : Addr := s.addr ("mod." ++ n)
/-- accounts whose balances are moved by SDK modules that are not modelled -/
def Sys.systemAccts (s : Sys) : List Addr :=
  ["fee_collector", "distribution", "mint", "bonded_tokens_pool", "not_bonded_tokens_pool"].map s.modAddr

def parseLedger (j : Json) : Ledger :=
  let posts := (J.arrOf j "bal").flatMap (fun e => match J.arr e with
    | [a, cs] => (J.coins cs).map (fun c => (J.str a, c.1, c.2))
    | _ => [])
  { posts := posts, supply := J.coinsOf j "supply" }

structure Report where
  diverge : Array String := #[]
  monfail : Array String := #[]
  stats : List (String × Nat) := []
  deriving Inhabited

def bump (stats : List (String × Nat)) (k : String) (n : Nat := 1) : List (String × Nat) :=
  if stats.any (·.1 == k) then stats.map (fun e => if e.1 == k then (e.1, e.2 + n) else e) else stats ++ [(k, n)]

def coinsEq (a b : Coins) : Bool := Coins.beq a b
def showCoins (c : Coins) : String := "{" ++ Coins.toStr c ++ "}"

/-- one-line, space-free rendering for VIOLATION details -/
def sq (s : String) : String := s.replace " " "_"

end Drivers
