import Drivers.Common
import Shentu.Model.Staking
import Shentu.Base.Dec
/- Staking: the flat observation of validators and unbonding entries, and the C09 monitors. -/
namespace Drivers.StakingD
open Lean Shentu Shentu.Staking

structure ObsVal where
  v : Val
  status : Nat          -- 1 unbonded, 2 unbonding, 3 bonded
  shares : Dec := Dec.zero
  deriving Inhabited

structure Red where
  del : Addr
  src : Addr
  dst : Addr
  time : Int
  height : Int
  deriving Inhabited, BEq

structure Obs where
  vals : List ObsVal := []
  ubds : List Ubd := []
  reds : List Red := []
  dels : List (Addr × Addr × Dec) := []    -- delegator, validator operator, shares
  bondedPool : Int := 0
  notBondedPool : Int := 0
  maxN : Nat := 100
  unbondingNs : Int := 0
  deriving Inhabited

def parse (j : Json) : Obs :=
  { vals := (J.arrOf j "vals2").map (fun x =>
      { v := { op := J.strOf x "op", pk := J.strOf x "pk", tokens := J.intOf x "tokens", jailed := J.boolOf x "jailed" }, status := (J.intOf x "status").toNat,
        shares := ⟨J.decRaw (J.strOf x "shares")⟩ }),
    dels := (J.arrOf j "delegations").map (fun d => (J.strOf d "delegator_address", J.strOf d "validator_address", (⟨J.decRaw (J.strOf d "shares")⟩ : Dec))),
    bondedPool := Coins.amountOf (J.coinsOf j "bonded_pool") "uctk", notBondedPool := Coins.amountOf (J.coinsOf j "notbonded_pool") "uctk",
    ubds := (J.arrOf j "ubds2").map (fun x =>
      { del := J.strOf x "del", val := J.strOf x "val", balance := J.intOf x "balance", time := J.intOf x "t", height := J.intOf x "h" }),
    reds := (J.arrOf j "reds2").map (fun x =>
      { del := J.strOf x "del", src := J.strOf x "src", dst := J.strOf x "dst", time := J.intOf x "t", height := J.intOf x "h" }),
    maxN := (J.intOf j "max_validators").toNat, unbondingNs := J.intOf j "unbonding_ns" }

def bondedView (o : Obs) : View := (o.vals.filter (·.status == 3)).map (fun x => (x.v.pk, powerOf x.v.tokens))
def showView (w : View) : String := String.intercalate "," ((canonView w).map (fun e => s!"{(e.1.take 8).toString}:{e.2}"))
def showUpd (w : View) : String := String.intercalate "," ((w.foldr insStr []).map (fun e => s!"{(e.1.take 8).toString}:{e.2}"))
def parseVu (j : Json) : View := (J.arr j).map (fun x => (J.strOf x "pk", J.intOf x "power"))

/-- the ranking is decided: no tie in power across the cut between the bonded set and the rest -/
def cutDecided (o : Obs) : Bool :=
  let r := ranked ((o.vals.map (·.v)).filter (fun v => !v.jailed && powerOf v.tokens > 0))
  match r.drop (o.maxN - 1) with
  | a :: b :: _ => powerOf a.tokens != powerOf b.tokens
  | _ => true

def sortUpd (us : View) : View := us.foldr insStr []

/-- the tokens a delegator's shares are worth: Σ over its delegations of trunc(shares × validator tokens / validator shares)
    (`Validator.TokensFromShares`), the bonded stake that backs a provider's collateral -/
def stakeOf (o : Obs) (a : Addr) : Int :=
  (o.dels.filter (·.1 == a)).foldl (fun acc d =>
    match o.vals.find? (·.v.op == d.2.1) with
    | some v => if v.shares.raw == 0 then acc else acc + Dec.truncateInt (Dec.quo (Dec.mulInt d.2.2 v.v.tokens) v.shares)
    | none => acc) 0

/-- the staking module accounts hold exactly the tokens of the validators (and the unbonding entries) -/
def poolProblems (o : Obs) : List String :=
  let bonded := ((o.vals.filter (·.status == 3)).map (·.v.tokens)).sum
  let notBonded := ((o.vals.filter (·.status != 3)).map (·.v.tokens)).sum + (o.ubds.map (·.balance)).sum
  (if o.bondedPool == bonded then [] else [s!"bonded pool holds {o.bondedPool}, bonded validators have {bonded} tokens"]) ++
  (if o.notBondedPool == notBonded then [] else [s!"not-bonded pool holds {o.notBondedPool}, unbonding entries and unbonded validators amount to {notBonded}"])

def ubdKey (u : Ubd) : String := s!"{u.del}|{u.val}|h={u.height}|{u.balance}"

end Drivers.StakingD
