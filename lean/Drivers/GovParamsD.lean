import Shentu.Base.J
/-
  Profile "govparams" (C08): the governance tally parameters changed by the real handler of a parameter-change proposal, then the
  real gov.EndBlocker at the end of a voting period (harness/sim/gen_govparams.go).

  `C08.gov_endBlock_never_halts` is about the gov model with the tally parameters of its state; the histories of the gov model
  keep them constant and the generators draw them well inside (0, 1).  This driver covers the edges of what the chain's parameter
  store admits — quorum 0 or 1, thresholds of 10^-18 or 1, for each of the three tallies, with nobody voting, an abstention, a
  yes or a veto — on the observation alone:
    gov_endblock_halts_under_accepted_params   (monitor, failing input) the parameter store ACCEPTED the value and the
                                               end-blocker aborted at the end of the next voting period.
  Drivers only; no theorem depends on this file.
-/
namespace Shentu.GovParamsD
open Lean Shentu

structure Res where
  stats : List String := []
  findings : List (String × String × String × String) := []    -- kind, properties, name, detail

def check (j : Json) : Res := Id.run do
  let which := J.strOf j "which"
  let quorum := J.strOf j "quorum"
  let q := if quorum.startsWith "-" then "negative" else if quorum == "0.000000000000000000" then "zero" else if quorum == "1.000000000000000000" then "one" else "inside"
  if !J.boolOf j "accepted" then
    return { stats := [s!"gparams.quorum_{q}.refused"] }
  let mut r : Res := { stats := [s!"gparams.quorum_{q}.accepted", s!"gparams.tally_{which}"] }
  if J.has j "setup" then
    return { r with stats := "gparams.probe_not_set_up" :: r.stats }
  let votes := J.strOf j "votes"
  let endblock := J.strOf j "endblock"
  r := { r with stats := s!"gparams.votes_{votes}.quorum_{q}" :: r.stats }
  if (endblock.splitOn "panic").length > 1 then
    r := { r with findings := ("monitor", "C08", "gov_endblock_halts_under_accepted_params",
      s!"a parameter-change proposal setting the tally parameters ({which}) to {J.strOf j "value"} is accepted by the parameter store; a text proposal then ends its voting period with votes: {votes}; the gov end-blocker aborts: {endblock}") :: r.findings }
  else
    r := { r with stats := s!"gparams.endblock_ok.{J.strOf j "status"}" :: r.stats }
  return r

end Shentu.GovParamsD
