import Shentu.Base.J
import Shentu.Model.Payout
/-
  Profile "payout" (C04): the real keeper's MakePayoutByProviderDelegations against `Payout.makePayout` on the same
  delegations, unbonding entries and amounts; plus the property's own statement on the observation alone (the coins that
  arrived are exactly the payout, nobody gave more than it held).  Drivers only; no theorem depends on this file.
-/
namespace Shentu.PayoutD
open Lean Shentu Shentu.Payout

structure Ubd where
  val : String
  t : Int
  bal : Int
  deriving BEq, Repr

def parseDel (j : Json) : Del :=
  { shares := ⟨J.decRaw (J.strOf j "shares")⟩, vtokens := J.intOf j "vtokens", vshares := ⟨J.decRaw (J.strOf j "vshares")⟩ }
def parseUbd (j : Json) : Ubd := { val := J.strOf j "val", t := J.intOf j "t", bal := J.intOf j "bal" }

/-- `GetSortedUnbondingDelegations`: `sort.SliceStable`, latest completion time first -/
def sortUbds (l : List Ubd) : List Ubd := l.mergeSort (fun a b => a.t ≥ b.t)

/-- `Props.C04b.WF`, as a Boolean -/
def wf (d : Del) : Bool := 0 < d.vtokens && d.vtokens * Dec.prec ≤ 2 * d.vshares.raw && 0 ≤ d.shares.raw && d.shares.raw ≤ d.vshares.raw

def canon (l : List Ubd) : List (String × Int × Int) :=
  (l.map (fun u => (u.val, u.t, u.bal))).mergeSort (fun a b => a.1 < b.1 || (a.1 == b.1 && (a.2.1 < b.2.1 || (a.2.1 == b.2.1 && a.2.2 ≤ b.2.2))))

def pad (l : List Int) (n : Nat) : List Int := l ++ List.replicate (n - l.length) 0

structure Res where
  stats : List String := []
  findings : List (String × String × String × String) := []    -- kind, properties, name, detail

def check (j : Json) : Res := Id.run do
  let ds := (J.arrOf j "dels").map parseDel
  let post := (J.arrOf j "dels_post").map parseDel
  let ubds := sortUbds ((J.arrOf j "ubds").map parseUbd)
  let ubdsPost := (J.arrOf j "ubds_post").map parseUbd
  let purchased := J.intOf j "purchased"
  let payout := J.intOf j "payout"
  let outcome := J.strOf j "outcome"
  let delta := J.intOf j "mod_delta"
  let mut r : Res := { stats := ["payout.calls"] }
  let ctxt := s!"provider {J.strOf j "provider"} trial {J.intOf j "trial"}: purchased={purchased} payout={payout} stake={bondedOf ds} unbonding={sum (ubds.map (·.bal))} delegations={ds.length} entries={ubds.length} outcome={outcome}"
  if ds.any (fun d => d.vtokens ≤ 0) then
    return { r with stats := "payout.skipped_validator_without_tokens" :: r.stats }
  if !ds.all wf then
    -- outside the theorem's hypotheses: reported, because the theorem then says nothing about this call
    r := { r with stats := "payout.not_wf" :: r.stats,
                  findings := ("monitor", "C02,C04", "delegation_outside_theorem_domain", s!"a share worth more than two tokens, or a delegation larger than its validator: {repr ds}. {ctxt}") :: r.findings }
  if ds.any (fun d => d.vtokens * Dec.prec > d.vshares.raw) then r := { r with stats := "payout.share_worth_more_than_a_token" :: r.stats }
  if (J.intOf j "slashes") > 0 then r := { r with stats := "payout.after_slash" :: r.stats }
  if ds.length ≥ 2 then r := { r with stats := "payout.several_delegations" :: r.stats }
  if ds.any (fun d => d.vtokens * Dec.prec < d.vshares.raw) then r := { r with stats := "payout.share_worth_less_than_a_token" :: r.stats }
  if J.intOf j "recorded_pre" != bondedOf ds then r := { r with stats := "payout.recorded_stake_was_stale" :: r.stats }
  let covered := purchased + payout ≤ bondedOf ds + sum (ubds.map (·.bal))
  r := { r with stats := (if covered then "payout.covered" else "payout.not_covered") :: r.stats }
  -- ---------------- the property on the observation alone
  let gave := (ds.zip post).map (fun (a, b) => a.vtokens - b.vtokens)
  if outcome == "ok" then
    r := { r with stats := "payout.ok" :: r.stats }
    if delta != payout then
      r := { r with findings := ("monitor", "C02,C04", "payout_arrives_in_full", s!"{delta} arrived in the module account. {ctxt}") :: r.findings }
    if (gave.zip ds).any (fun (g, d) => g < 0 || g > d.amount) then
      r := { r with findings := ("monitor", "C02,C04", "nobody_gives_more_than_it_holds", s!"per delegation given={gave} worth={ds.map Del.amount}. {ctxt}") :: r.findings }
    -- the hook recomputes the stake before the validator's tokens and shares are reduced: the record may lag behind by
    -- the rounding of the new rate (one unit per delegation), and only downwards (C06 reads it as an upper bound)
    if J.intOf j "recorded_post" > bondedOf post || J.intOf j "recorded_post" + ds.length < bondedOf post then
      r := { r with findings := ("monitor", "C02,C04", "recorded_stake_current_after_payout", s!"recorded={J.intOf j "recorded_post"} delegations worth {bondedOf post}. {ctxt}") :: r.findings }
    if !covered then
      r := { r with findings := ("monitor", "C02,C04", "uncovered_payout_refused", s!"paid although the stake does not cover purchased + payout. {ctxt}") :: r.findings }
  else
    r := { r with stats := "payout.refused" :: r.stats }
    if covered then
      r := { r with findings := ("monitor", "C02,C04", "covered_payout_is_made", s!"the stake covers purchased + payout but the call failed. {ctxt}") :: r.findings }
  -- ---------------- C09: what is left of the provider's unbonding entries is still in the completion queue
  if outcome == "ok" then
    let lost := (J.arrOf j "ubds_post").filter (fun u => J.has u "queued" && !J.boolOf u "queued")
    if !lost.isEmpty then
      r := { r with findings := ("monitor", "C09,C04", "unbonding_stays_queued",
        s!"after the payout {lost.length} unbonding entr(y/ies) of the provider are no longer in the staking module's completion queue: {(Json.arr lost.toArray).compress}. {ctxt}") :: r.findings }
  -- ---------------- C19: a payout is not signed by the unlocker, so it unlocks nothing — beyond the locked coins that the
  -- account's own delegation tracking says have left with it (never any in SDK 0.42.4, which does not persist that tracking)
  if J.has j "mva" then
    let m := J.get j "mva"
    r := { r with stats := (if J.intOf m "dv_pre" > 0 then "payout.locked_provider_tracked" else "payout.locked_provider") :: r.stats }
    let unlocked := J.intOf m "vested_post" - J.intOf m "vested_pre"
    let left := J.intOf m "dv_pre" - J.intOf m "dv_post"
    if outcome == "ok" && (unlocked < 0 || unlocked > left) then
      r := { r with findings := ("monitor", "C19", "payout_unlocks_nothing",
        s!"a payout of {payout} out of the stake of an account with {J.intOf m "ov"} locked raised its unlocked amount by {unlocked}; {left} locked coins left its delegations according to its own tracking. {ctxt}") :: r.findings }
  -- ---------------- the model on the same input
  match makePayout (bondedOf ds) purchased payout ds (ubds.map (·.bal)) with
  | .error _ =>
    if outcome != "panic: exact pay out was not made from unbondings" then
      r := { r with findings := ("diverge", "C02,C04", "payout:outcome", s!"model refuses (not covered by the unbonding entries). {ctxt}") :: r.findings }
  | .ok (pd, pu) =>
    if outcome != "ok" then
      r := { r with findings := ("diverge", "C02,C04", "payout:outcome", s!"model pays {pd} / {pu}. {ctxt}") :: r.findings }
    else
      if !pu.isEmpty then r := { r with stats := "payout.from_unbondings" :: r.stats }
      if !pd.isEmpty then r := { r with stats := "payout.from_delegations" :: r.stats }
      if pad pd ds.length != gave then
        r := { r with findings := ("diverge", "C02,C04", "payout:delegations", s!"model={pad pd ds.length} impl={gave}. {ctxt}") :: r.findings }
      -- an entry that pays its whole balance is removed; one that pays nothing is not touched (even if it holds nothing)
      let expect := ((ubds.zip (pad pu ubds.length)).filter (fun (u, t) => !(t > 0 && t == u.bal))).map (fun (u, t) => { u with bal := u.bal - t })
      if canon expect != canon ubdsPost then
        r := { r with findings := ("diverge", "C02,C04", "payout:unbondings", s!"model={repr (canon expect)} impl={repr (canon ubdsPost)}. {ctxt}") :: r.findings }
      else r := { r with stats := "payout.agree" :: r.stats }
  return r

end Shentu.PayoutD
