import Shentu.Base.Dec
open Shentu
def pI (s : String) : Option Int := if s == "x" then none else s.toInt?
def chk (name : String) (exp : Option Int) (got : Int) (line : String) : IO Nat := do
  match exp with
  | none => return 0
  | some e => if e == got then return 0 else do IO.println s!"MISMATCH {name}: exp {e} got {got} :: {line}"; return 1
partial def loop (h : IO.FS.Stream) (n bad : Nat) : IO (Nat × Nat) := do
  let line ← h.getLine
  if line.isEmpty then return (n, bad)
  let ws := (line.trimAscii.toString.splitOn " ")
  match ws with
  | [a, b, k, m, q, qt, mi, qi, ti, mt, ri] =>
    let a : Dec := ⟨(pI a).getD 0⟩; let b : Dec := ⟨(pI b).getD 0⟩; let k := (pI k).getD 0
    let mut bad := bad
    bad := bad + (← chk "mul" (pI m) (Dec.mul a b).raw line)
    bad := bad + (← chk "quo" (pI q) (Dec.quo a b).raw line)
    bad := bad + (← chk "quoTruncate" (pI qt) (Dec.quoTruncate a b).raw line)
    bad := bad + (← chk "mulInt" (pI mi) (Dec.mulInt a k).raw line)
    bad := bad + (← chk "quoInt" (pI qi) (Dec.quoInt a k).raw line)
    bad := bad + (← chk "truncateInt" (pI ti) (Dec.truncateInt a) line)
    bad := bad + (← chk "mulTruncate" (pI mt) (Dec.mulTruncate a b).raw line)
    bad := bad + (← chk "roundInt" (pI ri) (Dec.roundInt a) line)
    loop h (n+1) bad
  | _ => loop h n (bad+1)
def main : IO Unit := do
  let (n, bad) ← loop (← IO.getStdin) 0 0
  IO.println s!"checked {n} lines, {bad} mismatches"
