import Drivers.Common
import Shentu.Model.Oracle
/- Oracle: observation parsing, model-vs-implementation comparison, monitors (C14, C15). -/
namespace Drivers.OracleD
open Lean Shentu Shentu.Oracle

def parseState (j : Json) : State :=
  let p := J.get j "params"
  { ops := (J.arrOf j "ops").map (fun o => { addr := J.strOf o "addr", proposer := J.strOf o "proposer", coll := J.coinsOf o "coll", rew := J.coinsOf o "rew" }),
    wds := (J.arrOf j "wd").map (fun w => { addr := J.strOf w "addr", amt := J.coinsOf w "amt", due := J.intOf w "due" }),
    total := J.coinsOf j "total",
    tasks := (J.arrOf j "tasks").map (fun t =>
      { contract := J.strOf t "contract", function := J.strOf t "function", begin := J.intOf t "begin", bounty := J.coinsOf t "bounty",
        expiration := J.intOf t "expiration", creator := J.strOf t "creator",
        responses := (J.arrOf t "responses").map (fun r => { op := J.strOf r "op", score := J.intOf r "score", weight := J.intOf r "weight", reward := J.coinsOf r "reward" }),
        result := J.intOf t "result", closing := J.intOf t "closing", waiting := J.intOf t "waiting", status := (J.intOf t "status").toNat }),
    closing := (J.arrOf j "closing").map (fun e => match J.arr e with
      | [h, ids] => (J.int h, (J.arr ids).map (fun i => match J.arr i with | [c, f] => (J.str c, J.str f) | _ => ("", "")))
      | _ => (0, [])),
    params := { lock := J.intOf p "lock", minColl := J.intOf p "mincoll", window := J.intOf p "window", aggRes := J.intOf p "aggres",
                threshold := J.intOf p "threshold", eps1 := J.intOf p "eps1", eps2 := J.intOf p "eps2", expDur := J.intOf p "expdur" } }

/-! canonical rendering used for comparison (order-insensitive where the store order is irrelevant) -/

def insSorted (x : String) : List String → List String
  | [] => [x]
  | y :: ys => if x ≤ y then x :: y :: ys else y :: insSorted x ys
def sortStrs (l : List String) : List String := l.foldr insSorted []

def showResp (r : Response) : String := s!"{r.op}:{r.score}:{r.weight}:{Coins.toStr r.reward}"
def showTask (t : Task) : String :=
  s!"task[{t.contract}|{t.function}|b={t.begin}|bounty={Coins.toStr t.bounty}|exp={t.expiration}|cr={t.creator}|res={t.result}|cl={t.closing}|w={t.waiting}|st={t.status}|rs={String.intercalate ";" (t.responses.map showResp)}]"
def showOp (o : Operator) : String := s!"op[{o.addr}|{o.proposer}|{Coins.toStr o.coll}|{Coins.toStr o.rew}]"
def showWd (w : Withdraw) : String := s!"wd[{w.due}|{w.addr}|{Coins.toStr w.amt}]"
def showClosing (e : Int × List (String × String)) : String :=
  s!"closing[{e.1}|{String.intercalate ";" (e.2.map (fun i => i.1 ++ "/" ++ i.2))}]"

/-- the canonical set of facts of an oracle state -/
def facts (s : State) : List String :=
  sortStrs (s.ops.map showOp ++ s.wds.map showWd ++ s.tasks.map showTask ++
            (s.closing.filter (fun e => !e.2.isEmpty)).map showClosing ++ ["total[" ++ Coins.toStr s.total ++ "]"])

def diffFacts (model impl : List String) : List String :=
  (model.filter (fun f => !impl.contains f)).map ("model-only:" ++ ·) ++
  (impl.filter (fun f => !model.contains f)).map ("impl-only:" ++ ·)

/-- which properties a differing fact concerns -/
def propsOfFact (f : String) : String :=
  if (f.splitOn "task[").length > 1 || (f.splitOn "closing[").length > 1 then "C15"
  else if (f.splitOn "op[").length > 1 then "C14,C15" else "C14"

/-! monitors on observed states -/

def sumColl (s : State) : Coins := s.ops.foldl (fun acc o => Coins.add acc o.coll) []
def sumPending (s : State) : Coins := s.wds.foldl (fun acc w => Coins.add acc w.amt) []
def sumRewards (s : State) : Coins := s.ops.foldl (fun acc o => Coins.add acc o.rew) []

/-- C14: total collateral equals the sum over operators -/
def monTotalIsSum (s : State) : Bool := Coins.beq s.total (sumColl s)
/-- C14: the module account covers collateral + pending withdrawals + accrued rewards -/
def monFunded (modBal : Coins) (s : State) : Bool :=
  let owed := Coins.add (Coins.add s.total (sumPending s)) (sumRewards s)
  Coins.covers modBal owed
/-- C14: after BeginBlock at height h no withdrawal with due ≤ h is still pending -/
def monNoOverdue (h : Int) (s : State) : Bool := s.wds.all (fun w => w.due > h)

/-- C15: responses are unique per operator and in range -/
def monResponsesValid (s : State) : Bool :=
  s.tasks.all (fun t => t.responses.all (fun r => 0 ≤ r.score && r.score ≤ 100) &&
    (t.responses.map (·.op)).eraseDups.length == t.responses.length)

end Drivers.OracleD

namespace Drivers.OracleD
open Lean Shentu Shentu.Oracle

/-! C15 monitors on observed transitions (independent of the model's step functions) -/

def taskId (t : Task) : String := s!"{t.contract}|{t.function}|{t.begin}"
def findT (s : State) (t : Task) : Option Task := s.tasks.find? (fun x => taskId x == taskId t)

/-- bond-denomination collateral of a current operator -/
def collOf (bond : Denom) (s : State) (a : Addr) : Option Int :=
  (s.ops.find? (·.addr == a)).map (fun o => Coins.amountOf o.coll bond)

/-- a successful response: signer is a current operator, the task exists and is not past its closing block,
    no earlier response of this operator, score in range -/
def monRespondAccepted (pre : State) (h : Int) (contract function : String) (score : Int) (op : Addr) : Bool :=
  match pre.tasks.find? (fun t => t.contract ++ t.function == contract ++ function) with
  | none => false
  | some t => pre.ops.any (·.addr == op) && h ≤ t.closing && !(t.responses.any (·.op == op)) && 0 ≤ score && score ≤ 100

/-- a successful removal: by the creator, after the closing block, expired unless forced -/
def monDeleteAccepted (pre : State) (h t : Int) (contract function : String) (force : Bool) (deleter : Addr) : Bool :=
  match pre.tasks.find? (fun x => x.contract ++ x.function == contract ++ function) with
  | none => false
  | some x => x.creator == deleter && h > x.closing && (force || x.expiration < t)

/-- status changes only pending → succeeded/failed, only in the EndBlock of the closing height; afterwards the record is frozen -/
def monStatusChanges (pre post : State) (isEnd : Bool) (h : Int) : List String :=
  post.tasks.filterMap (fun t => match findT pre t with
    | none => none
    | some p =>
      if p.status == t.status then
        if p.status != 1 && p.result != t.result then some s!"result-changed-after-aggregation:{showTask t}" else none
      else if p.status != 1 then some s!"status-changed-after-aggregation:{showTask p}->{t.status}"
      else if !isEnd then some s!"aggregated-outside-endblock:{showTask t}"
      else if t.closing != h then some s!"aggregated-at-height-{h}-not-closing:{showTask t}"
      else none)

/-- after EndBlock(h) no pending task has closing ≤ h -/
def monNoMissedAggregation (post : State) (h : Int) : List String :=
  post.tasks.filterMap (fun t => if t.status == 1 && t.closing ≤ h then some (showTask t) else none)

/-- the aggregation outcome of one task, judged from the pre-state -/
def monAggregation (bond : Denom) (pre : State) (p t : Task) : Option String :=
  let usable := p.responses.filterMap (fun r => (collOf bond pre r.op).map (fun c => (r.score, c)))
  let W := (usable.map (·.2)).sum
  let S := (usable.map (fun e => e.1 * e.2)).sum
  let minC := ((usable.filter (fun e => e.1 == 0)).map (·.2)).sum
  if W ≤ 0 then
    if t.status == 3 && t.result == pre.params.aggRes then none
    else some s!"no-usable-response-but:{showTask t}"
  else if t.status != 2 then some s!"usable-responses-but-not-succeeded:{showTask t}"
  else if minC * 3 ≥ W then none
  else if t.result * W ≤ S + W && t.result * W ≥ S - W then none
  else some s!"result-not-weighted-mean:S={S},W={W}:{showTask t}"

/-- rewards credited in an EndBlock: only to responders of the tasks finalised now, never more than their bounties -/
def monBounty (pre post : State) (h : Int) : List String :=
  let fin := post.tasks.filter (fun t => match findT pre t with
    | some p => p.status == 1 && t.status == 2
    | none => false)
  let bounty := fin.foldl (fun acc t => Coins.add acc t.bounty) []
  let responders := fin.flatMap (fun t => t.responses.map (·.op))
  let credited := post.ops.map (fun o =>
    (o.addr, Coins.sub o.rew (((pre.ops.find? (·.addr == o.addr)).map (·.rew)).getD [])))
  let total := credited.foldl (fun acc e => Coins.add acc e.2) []
  let wrong := credited.filter (fun e => !(Coins.isZero e.2) && !(responders.contains e.1))
  (if Coins.covers bounty total && !(Coins.isAnyNegative total) then [] else [s!"rewards-exceed-bounty:h={h}:credited={Coins.toStr total},bounty={Coins.toStr bounty}"]) ++
  wrong.map (fun e => s!"reward-to-non-responder:{e.1}:{Coins.toStr e.2}")

end Drivers.OracleD
