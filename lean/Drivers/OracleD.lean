import Drivers.Common
import Shentu.Model.Oracle
/- Oracle: observation parsing, model-vs-implementation comparison, monitors (C14, C15). -/
namespace Drivers.OracleD
open Lean Shentu Shentu.Oracle

def parseState (j : Json) : State :=
  let p := J.get j "params"
  { ops := (J.arrOf j "ops").map (fun o => { addr := J.strOf o "addr", proposer := J.strOf o "proposer", coll := J.coinsOf o "coll", rew := J.coinsOf o "rew" }),
    wds := (J.arrOf j "wd").map (fun w => { addr := J.strOf w "addr", amt := J.coinsOf w "amt", due := J.intOf w "due" }),
    total := J.coinsOf j "total",
    tasks := (J.arrOf j "tasks").map (fun t =>
      { contract := J.strOf t "contract", function := J.strOf t "function", begin := J.intOf t "begin", bounty := J.coinsOf t "bounty",
        expiration := J.intOf t "expiration", creator := J.strOf t "creator",
        responses := (J.arrOf t "responses").map (fun r => { op := J.strOf r "op", score := J.intOf r "score", weight := J.intOf r "weight", reward := J.coinsOf r "reward" }),
        result := J.intOf t "result", closing := J.intOf t "closing", waiting := J.intOf t "waiting", status := (J.intOf t "status").toNat }),
    closing := (J.arrOf j "closing").map (fun e => match J.arr e with
      | [h, ids] => (J.int h, (J.arr ids).map (fun i => match J.arr i with | [c, f] => (J.str c, J.str f) | _ => ("", "")))
      | _ => (0, [])),
    params := { lock := J.intOf p "lock", minColl := J.intOf p "mincoll", window := J.intOf p "window", aggRes := J.intOf p "aggres",
                threshold := J.intOf p "threshold", eps1 := J.intOf p "eps1", eps2 := J.intOf p "eps2", expDur := J.intOf p "expdur" } }

/-! canonical rendering used for comparison (order-insensitive where the store order is irrelevant) -/

def insSorted (x : String) : List String → List String
  | [] => [x]
  | y :: ys => if x ≤ y then x :: y :: ys else y :: insSorted x ys
def sortStrs (l : List String) : List String := l.foldr insSorted []

def showResp (r : Response) : String := s!"{r.op}:{r.score}:{r.weight}:{Coins.toStr r.reward}"
def showTask (t : Task) : String :=
  s!"task[{t.contract}|{t.function}|b={t.begin}|bounty={Coins.toStr t.bounty}|exp={t.expiration}|cr={t.creator}|res={t.result}|cl={t.closing}|w={t.waiting}|st={t.status}|rs={String.intercalate ";" (t.responses.map showResp)}]"
def showOp (o : Operator) : String := s!"op[{o.addr}|{o.proposer}|{Coins.toStr o.coll}|{Coins.toStr o.rew}]"
def showWd (w : Withdraw) : String := s!"wd[{w.due}|{w.addr}|{Coins.toStr w.amt}]"
def showClosing (e : Int × List (String × String)) : String :=
  s!"closing[{e.1}|{String.intercalate ";" (e.2.map (fun i => i.1 ++ "/" ++ i.2))}]"

/-- the canonical set of facts of an oracle state -/
def facts (s : State) : List String :=
  sortStrs (s.ops.map showOp ++ s.wds.map showWd ++ s.tasks.map showTask ++
            (s.closing.filter (fun e => !e.2.isEmpty)).map showClosing ++ ["total[" ++ Coins.toStr s.total ++ "]"])

def diffFacts (model impl : List String) : List String :=
  (model.filter (fun f => !impl.contains f)).map ("model-only:" ++ ·) ++
  (impl.filter (fun f => !model.contains f)).map ("impl-only:" ++ ·)

/-- which properties a differing fact concerns -/
def propsOfFact (f : String) : String :=
  if (f.splitOn "task[").length > 1 || (f.splitOn "closing[").length > 1 then "C15"
  else if (f.splitOn "op[").length > 1 then "C14,C15" else "C14"

/-! monitors on observed states -/

def sumColl (s : State) : Coins := s.ops.foldl (fun acc o => Coins.add acc o.coll) []
def sumPending (s : State) : Coins := s.wds.foldl (fun acc w => Coins.add acc w.amt) []
def sumRewards (s : State) : Coins := s.ops.foldl (fun acc o => Coins.add acc o.rew) []

/-- C14: total collateral equals the sum over operators -/
def monTotalIsSum (s : State) : Bool := Coins.beq s.total (sumColl s)
/-- C14: the module account covers collateral + pending withdrawals + accrued rewards -/
def monFunded (modBal : Coins) (s : State) : Bool :=
  let owed := Coins.add (Coins.add s.total (sumPending s)) (sumRewards s)
  Coins.covers modBal owed
/-- C14: after BeginBlock at height h no withdrawal with due ≤ h is still pending -/
def monNoOverdue (h : Int) (s : State) : Bool := s.wds.all (fun w => w.due > h)

/-- C15: responses are unique per operator and in range -/
def monResponsesValid (s : State) : Bool :=
  s.tasks.all (fun t => t.responses.all (fun r => 0 ≤ r.score && r.score ≤ 100) &&
    (t.responses.map (·.op)).eraseDups.length == t.responses.length)

end Drivers.OracleD
