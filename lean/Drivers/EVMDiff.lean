import Shentu.Gen.EVM
/-
  Replays the output of harness/cmd/evmdiff (single instructions executed by the real CVM interpreter) against the
  generated definitions `Shentu.Gen.EVM.op_*`.  Validates the hand-written library model `Shentu/Arith/BigOps.lean`.
  Usage: lake env lean --run Drivers/EVMDiff.lean <file>     (prints `FINDING ..` lines and a `STAT` summary)
-/
open Shentu.Gen.EVM

/-- the generated definitions return `Nat`, or `Option Nat` when the Go case contains a fallible primitive -/
class Res (α : Type) where res : α → Option Nat
instance : Res Nat := ⟨some⟩
instance : Res (Option Nat) := ⟨id⟩
open Res (res)

def model (op : String) (w : List Nat) : Option (Option Nat) :=
  match op, w with
  | "ADD", [a, b] => some (res (op_ADD a b))
  | "MUL", [a, b] => some (res (op_MUL a b))
  | "SUB", [a, b] => some (res (op_SUB a b))
  | "DIV", [a, b] => some (res (op_DIV a b))
  | "SDIV", [a, b] => some (res (op_SDIV a b))
  | "MOD", [a, b] => some (res (op_MOD a b))
  | "SMOD", [a, b] => some (res (op_SMOD a b))
  | "ADDMOD", [a, b, c] => some (res (op_ADDMOD a b c))
  | "MULMOD", [a, b, c] => some (res (op_MULMOD a b c))
  | "EXP", [a, b] => some (res (op_EXP a b))
  | "SIGNEXTEND", [a, b] => some (res (op_SIGNEXTEND a b))
  | "LT", [a, b] => some (res (op_LT a b))
  | "GT", [a, b] => some (res (op_GT a b))
  | "SLT", [a, b] => some (res (op_SLT a b))
  | "SGT", [a, b] => some (res (op_SGT a b))
  | "EQ", [a, b] => some (res (op_EQ a b))
  | "ISZERO", [a] => some (res (op_ISZERO a))
  | "AND", [a, b] => some (res (op_AND a b))
  | "OR", [a, b] => some (res (op_OR a b))
  | "XOR", [a, b] => some (res (op_XOR a b))
  | "NOT", [a] => some (res (op_NOT a))
  | "BYTE", [a, b] => some (res (op_BYTE a b))
  | "SHL", [a, b] => some (res (op_SHL a b))
  | "SHR", [a, b] => some (res (op_SHR a b))
  | "SAR", [a, b] => some (res (op_SAR a b))
  | _, _ => none

def main (args : List String) : IO UInt32 := do
  let some path := args.head? | do IO.eprintln "usage: EVMDiff <file>"; return 2
  let lines := (← IO.FS.lines path).toList
  let mut bad := 0
  let mut n := 0
  for l in lines do
    let ws := l.splitOn " "
    match ws with
    | op :: rest =>
      if rest.isEmpty then continue
      let observed := rest.getLast!
      let operands := rest.dropLast.map String.toNat!
      let obs : Option Nat := if observed == "ERR" then none else some observed.toNat!
      -- Lean's runtime refuses huge exponents even for bases 0 and 1; those lines are not replayed
      if op == "EXP" && operands.getLast! > 4096 then continue
      n := n + 1
      match model op operands with
      | some m =>
        if m != obs then
          bad := bad + 1
          if bad ≤ 20 then IO.println s!"FINDING model/implementation mismatch: {l}  model={m}"
      | none => bad := bad + 1; IO.println s!"FINDING unparsable line: {l}"
    | [] => pure ()
  IO.println s!"STAT evmdiff_lines {n}"
  IO.println s!"STAT evmdiff_mismatches {bad}"
  return (if bad == 0 then 0 else 1)
