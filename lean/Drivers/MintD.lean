import Shentu.Base.J
import Shentu.Model.Mint
/-
  Profile "mint" (C01, C02, C08): the real `mint.BeginBlocker` against `Mint.beginBlock` on the same community pool,
  stake-for-shield pool, supply and provision; plus the properties' own statements on the observation alone (the supply
  grows by exactly the provision, the module accounts receive exactly what the supply grew by, the mint account hands
  everything on, what the shield account receives is booked as block service fees, what the distribution account receives
  is booked in the community pool).  Drivers only; no theorem depends on this file.
-/
namespace Shentu.MintD
open Lean Shentu Shentu.Mint

structure Res where
  stats : List String := []
  findings : List (String × String × String × String) := []    -- kind, properties, name, detail

def decCoins (j : Json) : List (String × Int) := (J.arr j).map (fun e => match J.arr e with
  | [d, x] => (J.str d, J.decRaw (J.str x))
  | _ => ("?", 0))

def decAmount (l : List (String × Int)) (d : String) : Int := ((l.filter (·.1 == d)).map (·.2)).sum

def mods : List String := ["mint", "fee_collector", "distribution", "shield"]

def check (j : Json) : Res := Id.run do
  let bond := J.strOf j "bond"
  let outcome := J.strOf j "outcome"
  let supplyPre := Coins.amountOf (J.coinsOf j "supply_pre") bond
  let supplyAllPre := J.coinsOf j "supply_all_pre"
  let supplyPost := J.coinsOf j "supply_post"
  let cpPre := decCoins (J.get j "cp_pre")
  let cpPost := decCoins (J.get j "cp_post")
  let pool := J.intOf j "pool"
  let balPre (m : String) : Coins := J.coinsOf (J.get j "bal_pre") m
  let balPost (m : String) : Coins := J.coinsOf (J.get j "bal_post") m
  let feesPre := decCoins (J.get j "block_fees_pre")
  let feesPost := decCoins (J.get j "block_fees_post")
  let how := J.get j "how"
  -- `BlockProvision`: annual provisions / blocks per year, truncated
  let provision := Dec.truncateInt (Dec.quoInt ⟨J.decRaw (J.strOf j "annual_provisions")⟩ (J.intOf j "blocks_per_year"))
  let ctxt := s!"trial {J.intOf j "trial"} ({how.compress}): supply={supplyPre} provision={provision} community_pool={(Json.compress (J.get j "cp_pre"))} stake_for_shield_pool={pool} outcome={outcome}"
  let mut r : Res := { stats := ["mint.calls", "mint.cp." ++ J.strOf how "cp", "mint.pool." ++ J.strOf how "pool", "mint.params." ++ J.strOf how "params"] }
  let denoms := (supplyAllPre.map (·.1) ++ supplyPost.map (·.1) ++ mods.flatMap (fun m => (balPre m).map (·.1) ++ (balPost m).map (·.1))).eraseDups
  -- ---------------- the properties on the observation alone
  if outcome == "ok" then
    r := { r with stats := "mint.ok" :: r.stats }
    let grown := Coins.amountOf supplyPost bond - supplyPre
    if grown != provision then
      r := { r with findings := ("monitor", "C01", "supply_grows_by_the_provision", s!"the supply grew by {grown}. {ctxt}") :: r.findings }
    for d in denoms do
      let dSupply := Coins.amountOf supplyPost d - Coins.amountOf supplyAllPre d
      let dBal := (mods.map (fun m => Coins.amountOf (balPost m) d - Coins.amountOf (balPre m) d)).sum
      if dSupply != dBal then
        r := { r with findings := ("monitor", "C01", "minted_coins_all_arrive", s!"denomination {d}: supply changed by {dSupply}, the module accounts by {dBal}. {ctxt}") :: r.findings }
      if d != bond && dSupply != 0 then
        r := { r with findings := ("monitor", "C01", "only_the_bond_denomination_is_minted", s!"denomination {d}: supply changed by {dSupply}. {ctxt}") :: r.findings }
    if !Coins.beq (balPost "mint") (balPre "mint") then
      r := { r with findings := ("monitor", "C01", "mint_account_hands_everything_on", s!"mint module account {Coins.toStr (balPre "mint")} -> {Coins.toStr (balPost "mint")}. {ctxt}") :: r.findings }
    -- C02: what arrives in the shield account is booked as block service fees, exactly
    let dShield := Coins.amountOf (balPost "shield") bond - Coins.amountOf (balPre "shield") bond
    let dFees := decAmount feesPost bond - decAmount feesPre bond
    if dShield * Dec.prec != dFees then
      r := { r with findings := ("monitor", "C02", "shield_rewards_booked", s!"shield account received {dShield}, block service fees grew by {dFees} (18 digits). {ctxt}") :: r.findings }
    if dShield > 0 then r := { r with stats := "mint.shield_share_paid" :: r.stats }
    -- the community pool's books follow the distribution account
    let dDistr := Coins.amountOf (balPost "distribution") bond - Coins.amountOf (balPre "distribution") bond
    let dCp := decAmount cpPost bond - decAmount cpPre bond
    if dDistr * Dec.prec != dCp then
      r := { r with findings := ("monitor", "C01", "community_pool_booked", s!"distribution account received {dDistr}, the community pool grew by {dCp} (18 digits). {ctxt}") :: r.findings }
    if dDistr > 0 then r := { r with stats := "mint.community_share_paid" :: r.stats }
    if provision == 0 then r := { r with stats := "mint.zero_provision" :: r.stats }
  else
    r := { r with stats := "mint.panic" :: r.stats }
  -- C08: inside the domain of `C01m.split_never_halts` (both pools are coins inside the supply, one whole coin elsewhere)
  -- the begin-blocker must not halt
  let cpRaw : Int := ((cpPre.find? (·.1 == bond)).map (·.2)).getD 0
  let inDomain := provision ≥ 0 && pool ≥ 0 && cpRaw ≥ 0 && cpRaw + pool * Dec.prec + Dec.prec ≤ (supplyPre + provision) * Dec.prec
  if inDomain then
    r := { r with stats := "mint.in_domain" :: r.stats }
    if outcome != "ok" then
      r := { r with findings := ("monitor", "C08", "mint_never_halts_in_domain", s!"the pools are inside the supply, yet BeginBlocker panicked. {ctxt}") :: r.findings }
  else r := { r with stats := "mint.outside_domain" :: r.stats }
  -- ---------------- the model on the same input
  let accts : Accts := ⟨"mint", "fee_collector", "distribution", "shield"⟩
  let posts : List Posting := mods.flatMap (fun m => (balPre m).map (fun c => (m, c.1, c.2)))
  let rest : List Posting := supplyAllPre.map (fun c => ("everybody-else", c.1, c.2 - (mods.map (fun m => Coins.amountOf (balPre m) c.1)).sum))
  let l : Ledger := { posts := posts ++ rest, supply := supplyAllPre }
  let cp : Option Dec := (cpPre.find? (·.1 == bond)).map (fun e => ⟨e.2⟩)
  match beginBlock accts bond l provision cp pool with
  | .error e =>
    r := { r with stats := "mint.model_panics" :: r.stats }
    if outcome == "ok" then
      r := { r with findings := ("diverge", "C01,C08", "mint:outcome", s!"model halts ({e.kind}), the implementation went on. {ctxt}") :: r.findings }
    else r := { r with stats := "mint.agree" :: r.stats }
  | .ok (l', sp) =>
    if outcome != "ok" then
      r := { r with findings := ("diverge", "C01,C08", "mint:outcome", s!"model splits {sp.fees} / {sp.cp} / {sp.ssp}, the implementation panicked. {ctxt}") :: r.findings }
    else
      let bad := mods.filter (fun m => !Coins.beq (l'.bal m) (balPost m))
      if !bad.isEmpty then
        r := { r with findings := ("diverge", "C01,C02", "mint:balances", s!"model split fees={sp.fees} community={sp.cp} shield={sp.ssp}; accounts that differ: {bad}; implementation {(Json.compress (J.get j "bal_post"))}. {ctxt}") :: r.findings }
      else if !Coins.beq l'.supply supplyPost then
        r := { r with findings := ("diverge", "C01", "mint:supply", s!"model {Coins.toStr l'.supply} implementation {Coins.toStr supplyPost}. {ctxt}") :: r.findings }
      else r := { r with stats := "mint.agree" :: r.stats }
      if !l'.invB then
        r := { r with findings := ("monitor", "C01", "balances_equal_supply", s!"after the model step. {ctxt}") :: r.findings }
      -- how close the two ratios came to one (the edge of the split's domain)
      if sp.fees == 0 && provision > 0 then r := { r with stats := "mint.nothing_left_for_fees" :: r.stats }
  return r

end Shentu.MintD
