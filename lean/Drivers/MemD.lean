import Shentu.Base.J
/-
  VM engine, C17 monitor `memory_is_paid_for` (work and memory are bounded by a function of the gas).

  The harness reports, for every execution on the real interpreter, the final size in bytes of the memory of every frame
  that was opened (`res.mem`, read from the interpreter's own memory objects after the run: what MSIZE would push at the end
  of the frame).  Memory is never released inside a frame and each frame pays for the expansion of its own memory, so
  whatever the program did, the EVM's memory cost of the final sizes is a lower bound of the gas consumed:

      sum over frames of  memGas(ceil(bytes / 32))  <=  gas given - gas left,      memGas(w) = 3 w + w^2 / 512

  (a callee's consumption is part of its caller's; the 2300 stipend of a value call is less than the 9000 the caller
  pays for the transfer).  Programs of the profile "zerolen" also end with MSIZE and return it: the monitor checks that the
  harness's reading of the top frame agrees with what the program itself saw (`msize_agrees_with_harness`).

  `zeroLen` says whether a zero-length memory operand at an offset beyond the current size was met — by the interpreter
  model run as the specification on the same program (deviation point 3, `zero_length_grows_memory`; the run is made only
  when the check has failed), or by construction of a "zerolen" program (`len=0` in the generator's note).  It does not enter the check; it is printed in the finding so that the recorded defect
  (known_findings.json, C17-zero_length_memory_growth) is told apart from any other way of getting memory for nothing.
  Drivers only; no theorem depends on this file.
-/
namespace Shentu.MemD
open Lean Shentu

def memGas (words : Nat) : Nat := 3 * words + words * words / 512

def hexDigit (c : Char) : Nat :=
  if '0' ≤ c && c ≤ '9' then c.toNat - '0'.toNat
  else if 'a' ≤ c && c ≤ 'f' then c.toNat - 'a'.toNat + 10
  else if 'A' ≤ c && c ≤ 'F' then c.toNat - 'A'.toNat + 10 else 0

/-- (kind, properties, name, detail); kind "stat" carries a counter name in `name` -/
def check (j : Json) (specRun : Unit → Nat × Nat) : List (String × String × String × String) := Id.run do
  let res := J.get j "res"
  if !J.has res "mem" then return []
  let outcome := J.strOf res "outcome"
  let gas := (J.intOf j "gas").toNat
  let gasLeft := (J.intOf res "gasLeft").toNat
  let used := gas - gasLeft
  let mem := (J.arrOf res "mem").map (fun m => (J.int m).toNat)
  let cost := (mem.map (fun b => memGas ((b + 31) / 32))).sum
  let note := J.strOf j "note"
  let profile := J.strOf j "profile"
  let byConstruction := profile == "zerolen" && (note.splitOn " len=0").length > 1
  let tag := if note.isEmpty then profile else profile ++ ":" ++ note
  let mut out : List (String × String × String × String) := [("stat", "", "mon.c17.memory_is_paid_for", "")]
  let biggest := mem.foldl max 0
  if biggest ≥ 1048576 then out := out ++ [("stat", "", "sit.c17.memory_of_a_mebibyte_or_more", "")]
  if cost > used then
    -- only now is the specification run of the model needed (deviation points met, as a bit set)
    let (devs, status) := specRun ()
    let zeroLen := byConstruction || (devs &&& (1 <<< 3) != 0)
    -- the specification run stopped outside the interpreter model (a native address, a destroyed account's reuse, nesting beyond the
    -- model's depth) before it could say whether a zero-length operand was met: the case cannot be told apart from the recorded defect
    -- by this monitor; it is counted and sampled, not reported (the same way of getting memory for nothing shows in the programs the
    -- model does follow, which is nearly all of them: see the counters)
    if !zeroLen && status == 2 then
      out := out ++ [("stat", "", "sit.c17.unpaid_memory_in_a_program_outside_the_model", "")]
    else
      out := out ++ [("monitor", "C17", "memory_is_paid_for",
        s!"final memory sizes (bytes per frame) {mem} cost {cost} gas by the EVM's memory formula; the execution consumed {used} (gas={gas}, gasLeft={gasLeft}, outcome={outcome}) zero_length_growth={if zeroLen then "yes" else "no"} [{tag}] code={J.strOf j "code"} input={J.strOf j "input"}")]
  else if byConstruction then out := out ++ [("stat", "", "sit.c17.zero_length_operand_but_memory_paid", "")]
  -- the program's own MSIZE (profile "zerolen": the last 32 bytes returned) against the harness's reading of the top frame
  if profile == "zerolen" && outcome == "ok" && (note.splitOn " msize_ret").length > 1 then
    let ret := J.strOf res "ret"
    let own := ret.foldl (fun a c => a * 16 + hexDigit c) 0
    -- the epilogue stores MSIZE at offset 0, which grows an empty memory to one word
    let top := max (mem.headD 0) 32
    out := out ++ [("stat", "", "mon.c17.msize_agrees_with_harness", "")]
    if ret.length != 64 || max own 32 != top then
      out := out ++ [("monitor", "C17", "msize_agrees_with_harness", s!"the program returned MSIZE={own} (ret={ret}), the harness read {mem} [{tag}] code={J.strOf j "code"}")]
  return out

end Shentu.MemD
