import Drivers.Common
import Shentu.Model.Gov
/- Governance and cert: observation parsing, comparison facts, monitors (C11, C12, C13). -/
namespace Drivers.GovD
open Lean Shentu Shentu.Gov

def kindOfType (t : String) : String :=
  if t.endsWith "TextProposal" then "text"
  else if t.endsWith "CertifierUpdateProposal" then "certifierUpdate"
  else if t.endsWith "SoftwareUpgradeProposal" then "upgrade"
  else if t.endsWith "ShieldClaimProposal" then "claim"
  else "other:" ++ t

def statusOf (s : String) : Nat :=
  match s with
  | "PROPOSAL_STATUS_DEPOSIT_PERIOD" => 1
  | "PROPOSAL_STATUS_CERTIFIER_VOTING_PERIOD" => 2
  | "PROPOSAL_STATUS_VALIDATOR_VOTING_PERIOD" => 3
  | "PROPOSAL_STATUS_PASSED" => 4
  | "PROPOSAL_STATUS_REJECTED" => 5
  | "PROPOSAL_STATUS_FAILED" => 6
  | _ => 0

def optionOf (s : String) : Nat :=
  match s with
  | "VOTE_OPTION_YES" => 1
  | "VOTE_OPTION_ABSTAIN" => 2
  | "VOTE_OPTION_NO" => 3
  | "VOTE_OPTION_NO_WITH_VETO" => 4
  | _ => 0

def tallyParams (j : Json) : TallyParams :=
  { quorum := ⟨J.decRaw (J.strOf j "quorum")⟩, threshold := ⟨J.decRaw (J.strOf j "threshold")⟩, veto := ⟨J.decRaw (J.strOf j "veto_threshold")⟩ }

def parseProposal (p : Json) : Proposal :=
  let c := J.get p "content"
  let t := J.get p "final_tally_result"
  { id := (J.intOf p "proposal_id").toNat, kind := kindOfType (J.strOf c "@type"),
    cuCertifier := J.strOf c "certifier", cuAlias := J.strOf c "alias", cuAdd := J.strOf c "add_or_remove" != "remove", cuProposer := J.strOf c "proposer",
    clPool := (J.intOf c "pool_id").toNat, clPurchase := (J.intOf c "purchase_id").toNat, clLoss := J.sdkCoins (J.get c "loss"),
    status := statusOf (J.strOf p "status"), isCouncil := J.boolOf p "is_proposer_council_member", proposer := J.strOf p "proposer_address",
    totalDeposit := J.sdkCoins (J.get p "total_deposit"), submitTime := J.intOf p "submit_time", depositEnd := J.intOf p "deposit_end_time",
    votingStart := J.intOf p "voting_start_time", votingEnd := J.intOf p "voting_end_time",
    tally := ⟨J.intOf t "yes", J.intOf t "abstain", J.intOf t "no", J.intOf t "no_with_veto"⟩ }

def parseGov (j : Json) : State :=
  let dp := J.get j "deposit_params"
  let tp := J.get j "tally_params"
  { proposals := (J.arrOf j "proposals").map parseProposal,
    deposits := (J.arrOf j "deposits").map (fun d => let x := J.get d "deposit"
      { pid := (J.intOf x "proposal_id").toNat, depositor := J.strOf x "depositor", amount := J.sdkCoins (J.get x "amount") }),
    votes := (J.arrOf j "votes").map (fun v => let x := J.get v "deposit"
      { pid := (J.intOf x "proposal_id").toNat, voter := J.strOf x "voter", option := optionOf (J.strOf x "option") }),
    nextId := (J.intOf j "starting_proposal_id").toNat,
    params := { minInitial := J.sdkCoins (J.get dp "min_initial_deposit"), minDeposit := J.sdkCoins (J.get dp "min_deposit"),
                depositPeriod := J.intOf dp "max_deposit_period", votingPeriod := J.intOf (J.get j "voting_params") "voting_period",
                default := tallyParams (J.get tp "default_tally"), security := tallyParams (J.get tp "certifier_update_security_vote_tally"),
                certStake := tallyParams (J.get tp "certifier_update_stake_vote_tally") } }

def certKind (t : String) : String := ((t.splitOn ".").getLast?.getD "").toLower

def parseCert (j : Json) : Cert.State :=
  { certifiers := (J.arrOf j "certifiers").map (fun c => { addr := J.strOf c "address", alias := J.strOf c "alias", proposer := J.strOf c "proposer" }),
    aliasIdx := (J.arrOf j "alias_index").map (fun e => match J.arr e with | [a, c] => (J.str a, J.str c) | _ => ("", "")),
    certs := (J.arrOf j "certificates").map (fun c => Cert.Certificate.mk (J.intOf c "certificate_id").toNat (certKind (J.strOf (J.get c "content") "@type")) (J.strOf (J.get c "content") "content") (J.strOf c "certifier")),
    nextId := (J.intOf j "next_certificate_id").toNat,
    platforms := (J.arrOf j "platforms").map (fun p => (J.strOf (J.get p "validator_pubkey") "key", J.strOf p "description")) }

def parseStake (j : Json) : StakeView :=
  { vals := ((J.arrOf j "validators").filter (fun v => J.strOf v "status" == "BOND_STATUS_BONDED")).map (fun v =>
      (J.strOf v "operator_address", J.intOf v "tokens", (⟨J.decRaw (J.strOf v "delegator_shares")⟩ : Dec))),
    dels := (J.arrOf j "delegations").map (fun d => (J.strOf d "delegator_address", J.strOf d "validator_address", (⟨J.decRaw (J.strOf d "shares")⟩ : Dec))),
    totalBonded := Coins.amountOf (J.coinsOf j "bonded_pool") "uctk" }

/-! canonical facts -/
def insSorted (x : String) : List String → List String
  | [] => [x]
  | y :: ys => if x ≤ y then x :: y :: ys else y :: insSorted x ys
def sortStrs (l : List String) : List String := l.foldr insSorted []

def showP (p : Proposal) : String :=
  s!"prop[{p.id}|{p.kind}|st={p.status}|council={p.isCouncil}|by={p.proposer}|dep={Coins.toStr p.totalDeposit}|sub={p.submitTime}|dend={p.depositEnd}|vs={p.votingStart}|ve={p.votingEnd}|tally={p.tally.yes}/{p.tally.abstain}/{p.tally.no}/{p.tally.veto}]"
def govFacts (g : State) : List String :=
  sortStrs (g.proposals.map showP ++ (g.deposits.filter (fun d => !Coins.isZero d.amount)).map (fun d => s!"deposit[{d.pid}|{d.depositor}|{Coins.toStr d.amount}]") ++
    g.votes.map (fun v => s!"vote[{v.pid}|{v.voter}|{v.option}]") ++ [s!"nextId[{g.nextId}]"])
def certFacts (c : Cert.State) : List String :=
  sortStrs (c.certifiers.map (fun x => s!"certifier[{x.addr}|{x.alias}|{x.proposer}]") ++ c.aliasIdx.map (fun e => s!"alias[{e.1}|{e.2}]") ++
    c.certs.map (fun x => s!"certificate[{x.id}|{x.kind}|{x.content}|{x.certifier}]") ++ c.platforms.map (fun p => s!"platform[{p.1}|{p.2}]") ++
    [s!"nextCertId[{c.nextId}]"])
def diffFacts (model impl : List String) : List String :=
  (model.filter (fun f => !impl.contains f)).map ("model-only:" ++ ·) ++ (impl.filter (fun f => !model.contains f)).map ("impl-only:" ++ ·)
def propsOfGovFact (f : String) : String :=
  if (f.splitOn "deposit[").length > 1 then "C11" else if (f.splitOn "prop[").length > 1 then "C12,C11" else "C12"

/-! ### C11 monitors -/
def liveStatus (s : Nat) : Bool := s == 1 || s == 2 || s == 3
def escrowOwed (g : State) : Coins :=
  (g.deposits.filter (fun d => (g.proposals.find? (·.id == d.pid)).any (fun p => liveStatus p.status))).foldl (fun acc d => Coins.add acc d.amount) []
/-- the module account holds exactly the deposits of proposals still in their deposit or voting periods -/
def monEscrowExact (modBal : Coins) (g : State) : Bool := Coins.beq modBal (escrowOwed g)
/-- no deposit record of a finalised or deleted proposal remains -/
def monNoOrphanDeposit (g : State) : List String :=
  g.deposits.filterMap (fun d => match g.proposals.find? (·.id == d.pid) with
    | none => some s!"deposit-of-deleted-proposal:{d.pid}:{d.depositor}:{Coins.toStr d.amount}"
    | some p => if liveStatus p.status then none else some s!"deposit-of-finalised-proposal:{d.pid}(status {p.status}):{d.depositor}:{Coins.toStr d.amount}")
/-- the sum of the records equals the proposal's total deposit while the proposal is live -/
def monDepositSum (g : State) : List String :=
  g.proposals.filterMap (fun p => if liveStatus p.status then
      let s := (g.deposits.filter (·.pid == p.id)).foldl (fun acc d => Coins.add acc d.amount) ([] : Coins)
      if Coins.beq s p.totalDeposit then none else some s!"records-differ-from-total:{p.id}:records={Coins.toStr s},total={Coins.toStr p.totalDeposit}"
    else none)

/-! ### C12 monitors -/
def rank (s : Nat) : Nat := match s with | 1 => 1 | 2 => 2 | 3 => 3 | _ => 4
/-- statuses only move forward; a final status never changes -/
def monStatusForward (pre post : State) : List String :=
  post.proposals.filterMap (fun p => match pre.proposals.find? (·.id == p.id) with
    | none => none
    | some q => if rank q.status > rank p.status || (rank q.status == 4 && q.status != p.status) then
        some s!"status-moved-backwards:{p.id}:{q.status}->{p.status}" else none)
/-- a proposal of a security-sensitive kind must start voting in the certifier round, any other in the stake round -/
def monRouting (pre post : State) : List String :=
  post.proposals.filterMap (fun p =>
    let before := ((pre.proposals.find? (·.id == p.id)).map (·.status)).getD 0
    if (before == 0 || before == 1) && (p.status == 2 || p.status == 3) then
      let sec := p.kind == "upgrade" || p.kind == "certifierUpdate" || p.kind == "claim"
      if sec && p.status != 2 then some s!"skipped-certifier-round:{p.id}:{p.kind}"
      else if !sec && p.status != 3 then some s!"certifier-round-for-ordinary-proposal:{p.id}:{p.kind}"
      else none
    else none)
/-- how a proposal may reach `passed` -/
def monPassPath (pre post : State) : List String :=
  post.proposals.filterMap (fun p => match pre.proposals.find? (·.id == p.id) with
    | none => none
    | some q =>
      if p.status == 4 && q.status != 4 then
        if p.kind == "certifierUpdate" then (if q.status == 2 || q.status == 3 then none else some s!"passed-from-status-{q.status}:{p.id}")
        else if q.status != 3 then some s!"passed-without-stake-round:{p.id}:{p.kind}:from-{q.status}" else none
      else none)
def monVoteAccepted (pre : State) (c : Cert.State) (pid : Nat) (voter : Addr) (option : Nat) : Option String :=
  match pre.proposals.find? (·.id == pid) with
  | none => some "vote-on-unknown-proposal"
  | some p =>
    if p.status != 2 && p.status != 3 then some s!"vote-accepted-in-status-{p.status}"
    else if !(option == 1 || option == 2 || option == 3 || option == 4) then some s!"invalid-option-{option}"
    else if p.status == 2 && !(option == 1 || option == 3) then some s!"certifier-round-option-{option}"
    else if p.status == 2 && !Cert.isCertifier c voter then some s!"non-certifier-voted-in-certifier-round:{voter}"
    else none

/-- Independent restatement of the stake-round rule in exact rational arithmetic.
    Returns (pass, veto, decisive) — `decisive = false` when some comparison is closer than 1e-12 (rounding territory). -/
def specStakeRule (sv : StakeView) (votes : List Vote) (tp : TallyParams) : Bool × Bool × Bool :=
  let P : Int := sv.vals.foldl (fun acc v => acc * (if v.2.2.raw == 0 then 1 else v.2.2.raw)) 1
  let isVal (a : Addr) := sv.vals.any (·.1 == a)
  -- numerators over the common denominator P, per option
  let delegatorPower (v : Vote) : Int := (sv.dels.filter (·.1 == v.voter)).foldl (fun acc d =>
      match sv.vals.find? (·.1 == d.2.1) with
      | some vi => if vi.2.2.raw == 0 then acc else acc + d.2.2.raw * vi.2.1 * (P / vi.2.2.raw)
      | none => acc) 0
  let deductions (val : Addr) : Int := (votes.filter (fun v => !isVal v.voter)).foldl (fun acc v =>
      acc + ((sv.dels.filter (fun d => d.1 == v.voter && d.2.1 == val)).foldl (fun a d => a + d.2.2.raw) 0)) 0
  let valPower (vi : Addr × Int × Dec) : Int := if vi.2.2.raw == 0 then 0 else (vi.2.2.raw - deductions vi.1) * vi.2.1 * (P / vi.2.2.raw)
  let powerOf (opt : Nat) : Int :=
    (votes.filter (fun v => v.option == opt && !isVal v.voter)).foldl (fun acc v => acc + delegatorPower v) 0 +
    (sv.vals.filter (fun vi => votes.any (fun v => v.voter == vi.1 && v.option == opt))).foldl (fun acc vi => acc + valPower vi) 0
  let yes := powerOf 1; let abstain := powerOf 2; let no := powerOf 3; let veto := powerOf 4
  let total := yes + abstain + no + veto
  let one : Int := 1000000000000000000
  -- a ≥ b·c/1e18 style comparisons, with closeness detection
  let close (l r : Int) : Bool := (l - r).natAbs * 1000000000000 ≤ r.natAbs + 1
  if sv.totalBonded == 0 then (false, false, true)
  else
    let qL := total * one; let qR := tp.quorum.raw * sv.totalBonded * P
    if close qL qR then (false, false, false)
    else if qL < qR then (false, false, true)
    else if total - abstain == 0 then (false, false, true)
    else
      let vL := veto * one; let vR := tp.veto.raw * total
      if close vL vR then (false, false, false)
      else if vL > vR then (false, true, true)
      else
        let yL := yes * one; let yR := tp.threshold.raw * (total - abstain)
        if close yL yR then (false, false, false)
        else (yL > yR, false, true)

/-- certifier round, restated: one certifier one vote -/
def specSecurityRule (nCert : Nat) (votes : List Vote) (tp : TallyParams) : Bool × Bool :=
  let yes : Int := (votes.filter (·.option == 1)).length
  let total : Int := (votes.filter (·.option != 0)).length
  let one : Int := 1000000000000000000
  if nCert == 0 || total == 0 then (false, true)
  else
    let close (l r : Int) : Bool := (l - r).natAbs * 1000000000000 ≤ r.natAbs + 1
    let qL := total * one; let qR := tp.quorum.raw * nCert
    if close qL qR then (false, false)
    else if qL < qR then (false, true)
    else
      let yL := yes * one; let yR := tp.threshold.raw * total
      if close yL yR then (false, false) else (yL > yR, true)

/-! ### C13 monitors -/
def monAliasUnique (c : Cert.State) : List String :=
  c.certifiers.filterMap (fun x => if x.alias != "" && (c.certifiers.filter (fun y => y.alias == x.alias)).length > 1 then some s!"alias-shared:{x.alias}" else none)
def monAliasIndex (c : Cert.State) : List String :=
  (c.certifiers.filterMap (fun x => if x.alias != "" && !(c.aliasIdx.any (fun e => e.1 == x.alias && e.2 == x.addr)) then some s!"alias-not-indexed:{x.alias}:{x.addr}" else none)) ++
  (c.aliasIdx.filterMap (fun e => if c.certifiers.any (fun x => x.alias == e.1 && x.addr == e.2) then none else some s!"stale-alias-index:{e.1}:{e.2}"))
def certifierSet (c : Cert.State) : List String := sortStrs (c.certifiers.map (fun x => x.addr ++ "|" ++ x.alias))
/-- certificates that the module's own query paths (by id / certifier / content) failed to return -/
def unretrievable (j : Json) : List String :=
  (J.arrOf j "unretrievable").map (fun e => match J.arr e with | [i, how] => s!"certificate {J.int i} not retrievable {J.str how}" | _ => "?")
def monIdsUnique (c : Cert.State) : Bool := (c.certs.map (·.id)).eraseDups.length == c.certs.length && c.certs.all (·.id < c.nextId)

end Drivers.GovD
