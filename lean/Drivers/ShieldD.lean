import Drivers.Common
import Drivers.GovD
import Shentu.Model.Shield
import Shentu.Model.Gov
/- Shield: observation parsing, comparison facts, monitors (C02–C07). -/
namespace Drivers.ShieldD
open Lean Shentu Shentu.Shield

def nativeDec (j : Json) : Dec :=
  -- {"native":[{"denom":"uctk","amount":"1.5"}],"foreign":[]}
  ((J.arrOf j "native").foldl (fun (acc : Int) c => if J.strOf c "denom" == "uctk" then acc + J.decRaw (J.strOf c "amount") else acc) 0 |> Dec.mk)
/-- a native denomination other than the bond denomination: outside the model -/
def foreignNative (j : Json) : Bool := (J.arrOf j "native").any (fun c => J.strOf c "denom" != "uctk") || !(J.arrOf j "foreign").isEmpty

def decCoinsJ (j : Json) : Dec :=
  -- [["uctk","1.500000000000000000"]]
  ((J.arr j).foldl (fun (acc : Int) e => match J.arr e with
    | [d, x] => if J.str d == "uctk" then acc + J.decRaw (J.str x) else acc
    | _ => acc) 0 |> Dec.mk)

def parsePool (p : Json) : Pool :=
  { id := (J.intOf p "id").toNat, shield := J.intOf p "shield", limit := J.intOf p "shield_limit",
    active := J.boolOf p "active", sponsor := J.strOf p "sponsor", sponsorAddr := J.strOf p "sponsor_addr" }
def parseEntry (en : Json) : Purchase :=
  { id := (J.intOf en "purchase_id").toNat, endTime := J.intOf en "protection_end_time",
    delTime := J.intOf en "deletion_time", shield := J.intOf en "shield", fees := nativeDec (J.get en "service_fees") }
def parseList (l : Json) : PList :=
  { pool := (J.intOf l "pool_id").toNat, purchaser := J.strOf l "purchaser", entries := (J.arrOf l "entries").map parseEntry }
def parseProvider (p : Json) : Provider :=
  { addr := J.strOf p "address", collateral := J.intOf p "collateral", withdrawing := J.intOf p "withdrawing",
    bonded := J.intOf p "delegation_bonded", rewards := nativeDec (J.get p "rewards") }
def parseWithdraw (w : Json) : Withdraw := { addr := J.strOf w "address", amount := J.intOf w "amount", time := J.intOf w "completion_time" }
def parseStake (k : Json) : Stake :=
  { pool := (J.intOf k "pool_id").toNat, purchaser := J.strOf k "purchaser", amount := J.intOf k "amount",
    requested := J.intOf k "withdraw_requested" }
def parseReimb (r : Json) : Reimb :=
  let x := J.get r "reimbursement"
  { pid := (J.intOf r "proposal_id").toNat, amount := Coins.amountOf (J.sdkCoins (J.get x "amount")) "uctk", beneficiary := J.strOf x "beneficiary",
    payoutTime := J.intOf x "payout_time" }
def parseParams (j : Json) : Params :=
  let pp := J.get j "pool_params"
  let cp := J.get j "claim_proposal_params"
  { protection := J.intOf pp "protection_period", withdrawPeriod := J.intOf pp "withdraw_period", feesRate := ⟨J.decRaw (J.strOf pp "shield_fees_rate")⟩,
    poolLimit := ⟨J.decRaw (J.strOf pp "pool_shield_limit")⟩, minPurchase := Coins.amountOf (J.sdkCoins (J.get pp "min_shield_purchase")) "uctk",
    stakingRate := ⟨J.decRaw (J.strOf j "shield_staking_rate")⟩, payoutPeriod := J.intOf cp "payout_period",
    claimMinDeposit := Coins.amountOf (J.sdkCoins (J.get cp "min_deposit")) "uctk", claimDepositRate := ⟨J.decRaw (J.strOf cp "deposit_rate")⟩ }

def parseState (j : Json) : State :=
  { admin := J.strOf j "shield_admin",
    pools := (J.arrOf j "pools").map parsePool,
    lists := (J.arrOf j "purchase_lists").map parseList,
    providers := (J.arrOf j "providers").map parseProvider,
    withdraws := (J.arrOf j "withdraws").map parseWithdraw,
    stakes := (J.arrOf j "stake_for_shields").map parseStake,
    origStakings := (J.arrOf j "original_stakings").map (fun o => ((J.intOf o "purchase_id").toNat, J.intOf o "amount")),
    reimbs := (J.arrOf j "proposalID_reimbursement_pairs").map parseReimb,
    totalCollateral := J.intOf j "total_collateral", totalWithdrawing := J.intOf j "total_withdrawing", totalShield := J.intOf j "total_shield",
    totalClaimed := J.intOf j "total_claimed", serviceFees := nativeDec (J.get j "service_fees"), remaining := nativeDec (J.get j "remaining_service_fees"),
    blockFees := decCoinsJ (J.get (J.get j "block_fees") "native"), stakingPool := J.intOf j "global_staking_pool",
    lastUpdate := J.intOf j "last_update_time", nextPool := (J.intOf j "next_pool_id").toNat, nextPurchase := (J.intOf j "next_purchase_id").toNat,
    params := parseParams j }

/-- a state with coins the model does not cover (foreign denominations) -/
def outsideModel (j : Json) : Bool :=
  foreignNative (J.get j "service_fees") || foreignNative (J.get j "remaining_service_fees") ||
  (J.arrOf j "providers").any (fun p => foreignNative (J.get p "rewards")) ||
  (J.arrOf j "purchase_lists").any (fun l => (J.arrOf l "entries").any (fun en => foreignNative (J.get en "service_fees")))

/-! canonical facts -/
/-- queued withdrawals of one provider with one completion time are compared by their sum
    (a payout from several delegations fires the staking hook once per delegation) -/
def mergedWithdraws (ws : List Withdraw) : List (Addr × Int × Int) :=
  ws.foldl (fun acc w => if acc.any (fun x => x.1 == w.addr && x.2.1 == w.time)
      then acc.map (fun x => if x.1 == w.addr && x.2.1 == w.time then (x.1, x.2.1, x.2.2 + w.amount) else x)
      else acc ++ [(w.addr, w.time, w.amount)]) []

def facts (s : State) : List String :=
  GovD.sortStrs (
    s.pools.map (fun p => s!"pool[{p.id}|shield={p.shield}|limit={p.limit}|active={p.active}|{p.sponsor}|{p.sponsorAddr}]") ++
    s.lists.flatMap (fun l => l.entries.map (fun en => s!"purchase[{l.pool}|{l.purchaser}|{en.id}|end={en.endTime}|del={en.delTime}|shield={en.shield}|fees={en.fees.raw}]")) ++
    s.providers.map (fun p => s!"provider[{p.addr}|coll={p.collateral}|wd={p.withdrawing}|bonded={p.bonded}|rewards={p.rewards.raw}]") ++
    (mergedWithdraws s.withdraws).map (fun w => s!"withdraw[{w.1}|t={w.2.1}|{w.2.2}]") ++
    s.stakes.map (fun k => s!"stake[{k.pool}|{k.purchaser}|{k.amount}|req={k.requested}]") ++
    (s.origStakings.filter (·.2 != 0)).map (fun o => s!"origStaking[{o.1}|{o.2}]") ++
    s.reimbs.map (fun r => s!"reimbursement[{r.pid}|{r.amount}|{r.beneficiary}|t={r.payoutTime}]") ++
    [s!"totals[coll={s.totalCollateral}|wd={s.totalWithdrawing}|shield={s.totalShield}|claimed={s.totalClaimed}|stakingPool={s.stakingPool}]",
     s!"fees[service={s.serviceFees.raw}|remaining={s.remaining.raw}|block={s.blockFees.raw}]",
     s!"meta[last={s.lastUpdate}|nextPool={s.nextPool}|nextPurchase={s.nextPurchase}|admin={s.admin}]"])

def diffFacts' (model impl : List String) : List String := GovD.diffFacts model impl

def propsOfFact (f : String) : String :=
  let has (x : String) := (f.splitOn x).length > 1
  if has "provider[" then "C03,C06,C04,C02"
  else if has "withdraw[" then "C07,C03"
  else if has "purchase[" || has "pool[" then "C06,C05,C03"
  else if has "reimbursement[" then "C04,C02"
  else if has "stake[" || has "origStaking[" then "C02,C06"
  else if has "fees[" then "C02"
  else if has "totals[" then "C03,C04,C05"
  else "C03"

/-! ### monitors on transitions -/

/-- C06: what must hold after an accepted purchase -/
def monPurchaseAccepted (pre post : State) (poolID : Nat) (amt : Int) (user : Bool) (lockedByOpenClaims : Int := 0) : List String :=
  -- what open claims lock is recomputed from the claim proposals themselves (the sum of the losses of the claims still being
  -- voted on), not only read from the module's own record: a record released twice would otherwise widen the limit unseen
  let free := post.totalCollateral - post.totalWithdrawing - max post.totalClaimed lockedByOpenClaims
  let c (b : Bool) (m : String) : List String := if b then [] else [m]
  c (post.totalShield ≤ free) s!"oversold: total shield {post.totalShield} > free collateral {free}" ++
  (match findPool post poolID, findPool pre poolID with
   | some p, some p0 =>
     c (p.shield ≤ p.limit) s!"pool {poolID}: shield {p.shield} > limit {p.limit}" ++
     c (p.shield * Dec.prec ≤ free * post.params.poolLimit.raw + Dec.prec) s!"pool {poolID}: shield {p.shield} > {post.params.poolLimit.raw}e-18 of free collateral {free}" ++
     c p0.active s!"purchase in paused pool {poolID}"
   | _, _ => [s!"purchase in unknown pool {poolID}"]) ++
  c (!user || amt ≥ pre.params.minPurchase) s!"purchase of {amt} below the minimum {pre.params.minPurchase}"

/-- the amounts `SecureCollaterals` asks of the providers for a new claim of `loss` (everything locked so far plus the loss,
    pro rata of the collateral, one unit more while something is left) -/
def secureShares (s : State) (loss : Int) : List (Addr × Int) :=
  let totalSecure := s.totalClaimed + loss
  if s.totalCollateral ≤ 0 then []
  else
    let ratio := Dec.quo (Dec.ofInt totalSecure) (Dec.ofInt s.totalCollateral)
    let rec go : List Provider → Int → List (Addr × Int)
      | [], _ => []
      | p :: ps, remaining =>
        let a0 := min (Dec.truncateInt (Dec.mul (Dec.ofInt p.collateral) ratio)) remaining
        let a := if a0 < remaining && a0 < p.collateral then a0 + 1 else a0
        (p.addr, a) :: go ps (remaining - a)
    go s.providers totalSecure

/-- C09 / C06: what a claim's lock is for — after an admitted claim every provider's share is backed until the lock ends by stake
    that cannot leave before: its bonded stake plus the unbonding entries that complete at or after the lock's end (or by all the
    stake it has, if that is less).  `ubds`: (delegator, completion time, balance) as observed after the submission. -/
def monClaimSecuresStake (pre post : State) (loss endTime : Int) (ubds : List (Addr × Int × Int)) : List String :=
  (secureShares pre loss).filterMap (fun (a, amt) =>
    match findProvider post a with
    | none => none
    | some p =>
      let mine := ubds.filter (·.1 == a)
      let all := mine.foldl (fun acc u => acc + u.2.2) 0
      let late := (mine.filter (fun u => u.2.1 ≥ endTime)).foldl (fun acc u => acc + u.2.2) 0
      if p.bonded + late ≥ min amt (p.bonded + all) then none
      else some s!"provider {a}: share {amt} of the lock until {endTime}, but only bonded {p.bonded} + unbonding completing then or later {late} stays that long (all unbonding {all})")

/-- C06: after an accepted deposit the provider's collateral not being withdrawn is within its bonded stake -/
def monDepositAccepted (post : State) (a : Addr) : List String :=
  match findProvider post a with
  | none => [s!"deposit accepted but no provider record for {a}"]
  | some p => if p.collateral - p.withdrawing ≤ p.bonded then [] else [s!"provider {a}: collateral {p.collateral} - withdrawing {p.withdrawing} > bonded {p.bonded}"]

/-- C06: after the provider's own staking action the shortfall is in withdrawal -/
def monBackedAfterStaking (post : State) (a : Addr) : List String :=
  match findProvider post a with
  | none => []
  | some p => if p.collateral - p.withdrawing ≤ p.bonded then [] else [s!"provider {a}: after its staking action collateral {p.collateral} - withdrawing {p.withdrawing} > bonded {p.bonded}"]

/-- C07: queue entries appear or grow only with a completion time at least one withdraw period ahead;
    `delayedTo` are the times to which an open claim may have pushed entries -/
def monNewWithdraws (pre post : State) (now : Int) : List String :=
  let a := mergedWithdraws pre.withdraws
  let b := mergedWithdraws post.withdraws
  let preBy (addr : Addr) (t : Int) : Int := ((a.find? (fun x => x.1 == addr && x.2.1 == t)).map (·.2.2)).getD 0
  -- an entry may grow because earlier entries of the same provider were delayed to its time: allow growth covered by shrinkage of earlier ones
  b.filterMap (fun x =>
    let grow := x.2.2 - preBy x.1 x.2.1
    if grow ≤ 0 then none
    else
      let movedFromEarlier := (a.filter (fun y => y.1 == x.1 && y.2.1 < x.2.1)).foldl (fun acc y =>
        acc + max 0 (y.2.2 - (((b.find? (fun z => z.1 == y.1 && z.2.1 == y.2.1)).map (·.2.2)).getD 0))) 0
      if x.2.1 ≥ now + pre.params.withdrawPeriod then none
      else if grow ≤ movedFromEarlier then none
      else some s!"withdrawal of {x.1} completing at {x.2.1} grew by {grow} at time {now} (period {pre.params.withdrawPeriod}, delayed from earlier {movedFromEarlier})")

/-- C07: a request never exceeds the collateral not already being withdrawn -/
def monWithdrawAccepted (pre : State) (a : Addr) (amt : Int) : List String :=
  match findProvider pre a with
  | none => [s!"withdrawal accepted for {a} who is not a provider"]
  | some p => if amt ≤ p.collateral - p.withdrawing then [] else [s!"provider {a}: request {amt} > collateral {p.collateral} - withdrawing {p.withdrawing}"]

/-- C07/C04: collateral leaves a provider only through matured queue entries and claim payouts -/
def monCollateralRelease (pre post : State) (now paid : Int) : List String :=
  let due (a : Addr) : Int := sumI (·.amount) (pre.withdraws.filter (fun w => w.addr == a && w.time ≤ now))
  let per := pre.providers.flatMap (fun p =>
    let q := ((findProvider post p.addr).map (·.collateral)).getD 0
    let drop := p.collateral - q
    let d := due p.addr
    if paid == 0 then (if drop == d then [] else [s!"provider {p.addr}: collateral fell by {drop}, matured withdrawals {d}, no claim paid"])
    else if drop < d then [s!"provider {p.addr}: collateral fell by {drop} < matured withdrawals {d}"]
    else if drop - d > p.collateral - d then [s!"provider {p.addr}: paid {drop - d} out of collateral {p.collateral - d}"]
    else [])
  let totalDrop := pre.totalCollateral - post.totalCollateral
  let totalDue := sumI (·.amount) (pre.withdraws.filter (·.time ≤ now))
  let provDrop := sumI (·.collateral) pre.providers - sumI (·.collateral) post.providers
  per ++ (if totalDrop == totalDue + paid then [] else [s!"total collateral fell by {totalDrop}; matured withdrawals {totalDue} + claims paid {paid}"]) ++
    (if provDrop == totalDue + paid then [] else [s!"providers' collateral fell by {provDrop}; matured withdrawals {totalDue} + claims paid {paid}"])

/-- C07: matured entries are gone after the end-blocker, unmatured ones are still there (or later) -/
def monQueueAfterEnd (post : State) (now : Int) : List String :=
  (post.withdraws.filter (·.time ≤ now)).map (fun w => s!"withdrawal of {w.amount} for {w.addr} due at {w.time} still queued at {now}")

/-- C07: outside end-blockers and claim payouts nothing is released: collateral never falls in a transaction -/
def monNoReleaseInTx (pre post : State) : List String :=
  pre.providers.filterMap (fun p => match findProvider post p.addr with
    | none => some s!"provider {p.addr} disappeared"
    | some q => if q.collateral < p.collateral then some s!"provider {p.addr}: collateral fell {p.collateral}->{q.collateral} in a transaction" else none)

/-- C07: an open claim only postpones: every pending amount of a provider is still pending, no earlier than before -/
def monOnlyPostponed (pre post : State) (a : Addr) : List String :=
  -- for every time T: amount maturing by T after ≤ amount maturing by T before
  let times := ((pre.withdraws ++ post.withdraws).filter (·.addr == a)).map (·.time)
  let by_ (s : State) (t : Int) : Int := sumI (·.amount) (s.withdraws.filter (fun w => w.addr == a && w.time ≤ t))
  let tot (s : State) : Int := sumI (·.amount) (s.withdraws.filter (·.addr == a))
  (times.filterMap (fun t => if by_ post t ≤ by_ pre t then none else some s!"provider {a}: {by_ post t} matures by {t}, before the claim only {by_ pre t}")) ++
  (if tot post == tot pre then [] else [s!"provider {a}: pending withdrawals changed {tot pre}->{tot post} when a claim was submitted"])

/-- C05: the lock taken when a claim is accepted -/
def monClaimLock (pre post : State) (holder : Addr) (poolID purchaseID : Nat) (loss : Int) : List String :=
  let c (b : Bool) (m : String) : List String := if b then [] else [m]
  let sh (s : State) : Int := (((findList s poolID holder).bind (fun l => l.entries.find? (·.id == purchaseID))).map (·.shield)).getD 0
  let ps (s : State) : Int := ((findPool s poolID).map (·.shield)).getD 0
  c (sh pre - sh post == loss) s!"purchase {purchaseID}: shield {sh pre}->{sh post}, loss {loss}" ++
  c (ps pre - ps post == loss) s!"pool {poolID}: shield {ps pre}->{ps post}, loss {loss}" ++
  c (pre.totalShield - post.totalShield == loss) s!"total shield {pre.totalShield}->{post.totalShield}, loss {loss}" ++
  c (post.totalClaimed - pre.totalClaimed == loss) s!"locked for claims {pre.totalClaimed}->{post.totalClaimed}, loss {loss}" ++
  -- every other purchase keeps its shield
  pre.lists.flatMap (fun l => l.entries.filterMap (fun en =>
    if en.id == purchaseID && l.pool == poolID && l.purchaser == holder then none
    else match (findList post l.pool l.purchaser).bind (fun l' => l'.entries.find? (·.id == en.id)) with
      | some en' => if en'.shield == en.shield then none else some s!"purchase {en.id}: shield changed {en.shield}->{en'.shield} by somebody else's claim"
      | none => some s!"purchase {en.id} disappeared when a claim was submitted"))

end Drivers.ShieldD
