#!/bin/bash
# usage: mutate.sh <label> <sed-expression>   (applies to a fresh copy of vm/contract.go)
set -u
label="$1"; expr="$2"
cp /repo/vm/contract.go /tmp/evmA/repo_copy/vm/contract.go
sed -i -E "$expr" /tmp/evmA/repo_copy/vm/contract.go
echo "=== $label"
diff <(cat /repo/vm/contract.go) /tmp/evmA/repo_copy/vm/contract.go | head -6
cd /tmp/evmA/translator && ./bin/translator -repo /tmp/evmA/repo_copy -out /tmp/evmA/lean/Shentu/Gen >/dev/null
cd /tmp/evmA/lean && lake build Shentu.Props.C16 2>&1 | grep -E "^error: .*C16.lean|Build completed|build failed" | head -5
