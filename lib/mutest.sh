#!/bin/sh
# usage: mutest.sh <patch> <prop> [tier]  -- apply a seeded change to /repo, run the check, undo it
patch=$1; prop=$2; tier=${3:-quick}
cd /repo || exit 2
git apply --check "$patch" 2>/dev/null || git apply --3way --check "$patch" || { echo "PATCH DOES NOT APPLY"; exit 3; }
git apply "$patch" 2>/dev/null || git apply --3way "$patch"
cd /verif && ./check "$prop" --tier "$tier" 2>&1 | grep -v "^\[check\] \(translator\|harness build\|lake build chaindriver\)" | tail -8
rc=$?
cd /repo && git checkout -- . && git status --short | head -3
