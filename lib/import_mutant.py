#!/usr/bin/env python3
"""import_mutant.py <prop> <src dir> <name> <confirm json> <detected: text>"""
import json, os, shutil, sys
prop, src, name, confirm, detected = sys.argv[1:6]
dst = f"/verif/seeded/{prop}-{name}"
os.makedirs(dst, exist_ok=True)
shutil.copy(f"{src}/patch.diff", dst)
shutil.copy(f"{src}/demo_test.go", dst)
m = json.load(open(f"{src}/meta.json"))
m["confirmed_in_scratch_worktree"] = json.loads(confirm)
m["confirmation_cmd"] = "lib/confirm_mutant.sh <worktree> <dir> <packages>  (apply; go build ./...; existing tests; demo fails; revert; demo passes)"
m["detected_by"] = detected
json.dump(m, open(f"{dst}/meta.json", "w"), indent=1)
print(dst)
