#!/bin/sh
# usage: confirm_mutant.sh <worktree> <mutant dir> <test packages...>
# Confirms in a scratch worktree: builds, existing tests pass, demo fails with the change, passes without.
wt=$1; md=$2; shift 2
export GOFLAGS=-mod=mod GOPROXY=off GOSUMDB=off GOTOOLCHAIN=local
cd "$wt" || exit 2
git checkout -q -- . ; git clean -fdq -e out
demo=$(python3 -c "import json;print(json.load(open('$md/meta.json'))['demo_path'])")
pkg=./$(dirname "$demo")
res="{"
git apply "$md/patch.diff" || { echo "apply failed"; exit 3; }
if go build ./... >/dev/null 2>&1; then res="$res\"builds\":true,"; else res="$res\"builds\":false,"; fi
if go test -vet=off -count=1 "$@" >/tmp/confirm_$$.log 2>&1; then res="$res\"existing_tests_pass\":true,"; else res="$res\"existing_tests_pass\":false,"; fi
cp "$md/demo_test.go" "$demo"
if go test -vet=off -count=1 "$pkg" -run 'Demo|demo|ZZ|Zz' >/tmp/confirm_$$.log 2>&1; then res="$res\"demo_fails_with_change\":false,"; else
  if grep -q "^--- FAIL\|^FAIL" /tmp/confirm_$$.log && ! grep -q "build failed\|cannot find\|undefined:" /tmp/confirm_$$.log; then res="$res\"demo_fails_with_change\":true,"; else res="$res\"demo_fails_with_change\":\"error\","; fi; fi
git apply -R "$md/patch.diff"
if go test -vet=off -count=1 "$pkg" -run 'Demo|demo|ZZ|Zz' >/tmp/confirm_$$.log 2>&1; then res="$res\"demo_passes_without\":true}"; else res="$res\"demo_passes_without\":false}"; fi
rm -f "$demo" /tmp/confirm_$$.log
git checkout -q -- . ; git clean -fdq -e out
echo "$res"
