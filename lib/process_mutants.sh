#!/bin/sh
# usage: process_mutants.sh <prop> [tier]  -- confirm every mutant of /tmp/mut/<prop>/out in a scratch worktree, run the check on it, print a summary
prop=$1; tier=${2:-quick}
export GOFLAGS=-mod=mod GOPROXY=off GOSUMDB=off GOTOOLCHAIN=local
wt=/tmp/mut/confirm
[ -d $wt ] || git -C /repo worktree add --detach $wt HEAD >/dev/null 2>&1
for md in /tmp/mut/$prop/out/m*; do
  [ -f $md/patch.diff ] || continue
  name=$(basename $md)
  demo=$(python3 -c "import json;print(json.load(open('$md/meta.json'))['demo_path'])")
  pkgs="./$(dirname $demo)/... ./x/gov/... ./x/shield/... ./app/..."
  conf=$(sh /verif/lib/confirm_mutant.sh $wt $md $pkgs 2>&1 | tail -1)
  echo "== $prop-$name confirm: $conf"
  echo "$conf" > $md/confirm.json
  sh /verif/lib/mutest.sh $md/patch.diff $prop $tier > $md/check.log 2>&1
  grep -c "^VIOLATION" $md/check.log | sed "s/^/   violations: /"
  grep "^VIOLATION\|\] $prop " $md/check.log | head -4
done
