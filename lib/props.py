"""Per-property configuration of ./check."""

def chain(profile, qn, tn, ops=80, tops=None, extra=None):
    return {"kind": "chain", "profile": profile, "extra": extra or [],
            "quick": {"n": qn, "ops": ops, "shards": 16}, "thorough": {"n": tn, "ops": tops or ops * 2, "shards": 16}}

def vm(profile, qn, tn, extra=None):
    """VM engine: harness/cmd/vmrun | lean vmdriver (one generated program per case)"""
    return {"kind": "vm", "profile": profile, "extra": extra or [],
            "quick": {"n": qn, "shards": 16}, "thorough": {"n": tn, "shards": 16}}

# every module's property is also exercised across an export / import of the state (the export profile runs histories of all base
# profiles; its findings are attributed to C20 and to the properties of the base profile's modules)
EXPORT = chain("export", 48, 480, ops=100, tops=200)
# the real mint.BeginBlocker against Model/Mint.lean on states reached by shield and staking histories (C01, C02, C08)
MINT = chain("mint", 48, 480, ops=60, tops=120)
# the real DelayUnbonding / PayFromUnbondings / staking end-blocker completion against Model/UbdQueue.lean on states reached by shield
# and staking histories, after undelegations through the real keeper onto a small grid of completion times (C09, C04)
UBDQ = chain("ubdqueue", 64, 640, ops=80, tops=160)
# the real CreateReimbursement against Shield.createReimbursement on books brought to a chosen utilisation of the collateral (exactly full,
# one unit below, above, anywhere) by real keeper calls in a discarded cache context, on states reached by shield histories and on chains
# without any shield history (C04, C02, C03, C08)
REIMB = chain("reimburse", 64, 640, ops=60, tops=120)
REIMB_ASSUME = "the payout of an approved claim at chosen utilisations (engine 'reimburse'): providers, pools, purchases, the claim's lock (SecureCollaterals as the submission does) and queued withdrawals are made with the real keepers in a discarded cache context, the pool parameters there allow one pool to carry all the shield and purchases of one unit; the monitor approved_claim_is_paid_in_full judges a call only when the books cover the loss (total shield + claimed + withdrawing <= total collateral) and every provider's collateral is backed by its bonded and unbonding stake"
UBDQ_ASSUME = "the unbonding queue (Props/C09q): DelayUnbonding, PayFromUnbondings and the end-blocker's completion are modelled in Model/UbdQueue.lean on the pair of stores (unbonding delegations, completion queue); creation height and initial balance of an entry, the maximum number of entries per pair and the coins of the not-bonded pool are left out; the engine 'ubdqueue' calls the real functions in a discarded cache context on populations built by the real Undelegate at chosen block times"
MINT_ASSUME = "the size of the block provision (the SDK minter's inflation and annual provisions) is an input of the mint model; the monitor supply_grows_by_the_provision restates BlockProvision = annual provisions / blocks per year on the observation"

VM_ENGINES = [vm("ops", 16000, 320000), vm("structured", 16000, 320000), vm("raw", 16000, 320000), vm("calls", 16000, 320000), vm("create", 4800, 48000)]
# zero-length memory operands at large offsets, one instruction per program (C16 zero_length_grows_memory, C17 memory_is_paid_for)
VM_ZEROLEN = vm("zerolen", 3200, 64000)
# a counting loop delivered as eWASM constructor / eWASM contract call / EVM init code through DeliverTx (C17 wasm_work_is_metered)
WASM = chain("wasm", 16, 160, ops=4)
# a contract returning BLOCKHASH(NUMBER - k) called on the real chain at several heights and again after an export / re-import (C16, C20)
BLOCKHASH = chain("blockhash", 16, 160, ops=4)
# the oracle's task parameters changed by the real handler of a parameter-change proposal (epsilons around zero), then the real
# oracle.EndBlocker at the closing block of a task whose responses make that epsilon the whole divisor (C08)
ORACLEPARAMS = chain("oracleparams", 12, 120, ops=40, tops=80)
# the shield's withdraw period changed by the real parameter-change handler, then a withdrawal request through the real keeper (C07)
SHIELDPARAMS = chain("shieldparams", 12, 120, ops=120, tops=200)
# the gov tally parameters at the edges of what validation admits (quorum 0 / 1, thresholds 10^-18 / 1), set by the real parameter-change
# handler, then the real gov.EndBlocker at the end of a voting period with nobody / an abstention / a yes / a veto (C08)
GOVPARAMS = chain("govparams", 12, 120, ops=60, tops=100)
VM_ASSUME = ["outside the Lean interpreter model (cases reaching them are skipped by the comparison, monitors still run): native/precompile addresses (<= 0xff), any use of an address destroyed earlier in the same transaction, call / constructor nesting deeper than 8",
             "CREATE and CREATE2 are inside the model; the address CREATE derives (SHA-256 of creator, transaction nonce and the CVM's sequence counter; no SHA-256 in the Lean base) is an input of the model: the harness reconstructs the table (creator, sequence number) -> address from the interpreter's call events, the driver checks that it is a one-to-one function, and a model run that asks for an entry the interpreter did not derive is reported as a difference; the CREATE2 address (Keccak-256) is computed by the model",
             "the VM engine's state gives every account the CreateContract permission (Burrow's default global permissions) and has no contract metadata (InitChildCode's code-hash whitelist is empty); the transaction nonce option of the CVM is empty",
             "DataStackMaxDepth = 0 and the 16 MiB memory provider, as x/cvm/keeper configures the VM"]
VM_TRUST = ["modelled, not verified: Go runtime (big.Int, slices, allocation limits), Burrow acmstate cache/Sync, golang.org/x/crypto/sha3, crypto/sha256 (CREATE addresses: taken from the interpreter as an oracle)",
            "the VM engine runs /repo/vm on an in-memory Burrow state with the keeper's storage convention; the keeper, the message path and the SDK gas meter are covered by the chain engine"]

SDK_TRUST = ["modelled, not verified: Cosmos SDK bank/auth/staking/distribution, baseapp transaction atomicity, IAVL, Tendermint"]

GOV = {"engines": [chain("gov", 160, 1600, ops=100), EXPORT], "trusted": SDK_TRUST + ["the staking module is an observed input of the tally (bonded validators, delegations, bonded total)"],
       "assumptions": ["governance parameters are constant along a history", "shield-claim proposals are exercised by the shield checks"]}

BANKVM = {"trusted": SDK_TRUST + ["contract behaviour at chain level is modelled for a fixed library of hand-assembled programs (harness/sim/gen_bankvm.go); arbitrary programs are covered by the VM engine"],
          "assumptions": ["SDK 0.42.4 does not persist vesting delegation tracking (DelegateCoins/trackDelegation omits SetAccount): observed, reproduced by the model, not part of the repository"]}

SHIELD = {"engines": [chain("shield", 128, 1280, ops=160, tops=240), EXPORT],
          "trusted": SDK_TRUST + ["the staking module is an observed input: the bonded stake the staking hooks recompute for a provider is read from the observed post-state; unbonding delegations (their delay by claims and payouts taken from them) are not modelled",
                                  "governance's tally of a claim is validated by the C12 monitors; the shield model takes the observed outcome of a claim (paid / rejected / vetoed) as input"],
          "assumptions": ["shield and governance parameters are constant along a history", "three histories in four are drawn inside the module's stated design assumption (keeper/collateral.go): unbonding time >= withdraw period >= protection period >= claim lock (21 / 21 / 21 / 4 days by default); one in four outside it, where a claim that passes the vote may fail at payout (the proposal then fails and its lock is undone)",
                          "only the bond denomination is used for shield, fees and losses", "genesis LastUpdateTime is the chain's start time (DefaultGenesisState stamps the wall clock)"]}

PROPS = {
    "C02": dict(SHIELD, lean=["Shentu.Props.C02", "Shentu.Props.C04b", "Shentu.Props.C01m", "Shentu.Props.ShieldTie"], engines=SHIELD["engines"] + [chain("payout", 64, 640, ops=120, tops=200), MINT, REIMB],
                assumptions=SHIELD["assumptions"] + [MINT_ASSUME, REIMB_ASSUME]),
    "C03": dict(SHIELD, lean=["Shentu.Props.C03a", "Shentu.Props.C03b", "Shentu.Props.ShieldTie"], engines=SHIELD["engines"] + [REIMB],
                assumptions=SHIELD["assumptions"] + [REIMB_ASSUME]),
    "C04": dict(SHIELD, lean=["Shentu.Props.C04", "Shentu.Props.C04H", "Shentu.Props.C04b", "Shentu.Props.C04c", "Shentu.Props.C04r", "Shentu.Props.C09q", "Shentu.Props.ShieldTie"],
                engines=SHIELD["engines"] + [chain("payout", 64, 640, ops=120, tops=200), UBDQ, REIMB],
                assumptions=SHIELD["assumptions"] + [UBDQ_ASSUME, REIMB_ASSUME,
        "'taken from its bonded or unbonding stake': in the shield model the coins move from the staking pools in one step; how the code takes them (split, pro-rata loop, shares rounded up, unbonding entries) is Model/Payout.lean, run against the real keeper's MakePayoutByProviderDelegations by the engine 'payout' on states reached by shield histories, after random slashes and undelegations in a discarded cache context"]),
    "C05": dict(SHIELD, lean=["Shentu.Props.C05", "Shentu.Props.C05H", "Shentu.Props.ShieldTie"], engines=SHIELD["engines"] + [SHIELDPARAMS]),
    "C06": dict(SHIELD, lean=["Shentu.Props.C06", "Shentu.Props.ShieldTie"], assumptions=SHIELD["assumptions"] + [
        "the converse (a funded purchase meeting the conditions is accepted) is proved for purchases whose fee or stake does not truncate to zero (amount x rate >= 1 unit); with the default minimum purchase of 50 CTK this always holds; below it the module answers ErrNoShield"]),
    "C07": dict(SHIELD, lean=["Shentu.Props.C07", "Shentu.Props.C07P", "Shentu.Props.ShieldTie"], engines=SHIELD["engines"] + [SHIELDPARAMS]),
    "C08": {
        "lean": ["Shentu.Props.C08", "Shentu.Props.C04b", "Shentu.Props.C04c", "Shentu.Props.C04r", "Shentu.Props.C01m"],
        "engines": [chain("shield", 96, 960, ops=240, tops=400), chain("oracle", 48, 480, ops=120), chain("gov", 48, 480, ops=120), chain("staking", 32, 320, ops=150), chain("bankvm", 32, 320, ops=100), MINT, REIMB, ORACLEPARAMS, GOVPARAMS, SHIELDPARAMS],
        "trusted": SDK_TRUST + ["a panic inside BeginBlock/EndBlock of the real application is caught by the harness (recover) and reported with its site; the begin/end-blockers of SDK modules (distribution, mint, slashing, staking) run for real in every history but are not modelled",
                                "in the models a Go panic is the error value built by `panicE`; the theorems show that the modelled block-level functions return no error on states satisfying invariants that are proved to be preserved by every operation"],
        "assumptions": ["oracle parameters epsilon1, epsilon2 > 0 (the hypothesis EndInv of C08.oracle_endBlock_never_halts; the oracle histories keep the parameters constant): discharged against the code by the engine 'oracleparams' — the real parameter-change handler must refuse every non-positive epsilon, and under every value it accepts the real end-blocker is run on the task that makes the epsilon the whole divisor (repaired in /repo: before the repair zero was accepted and the end-blocker divided by zero)", "shield protection period > 0 (validated by the module)",
                        "claim payouts, at the staking level: the payout function panics ('exact pay out was not made from unbondings') exactly when the provider's bonded and unbonding stake does not cover purchased + payout, and otherwise succeeds (C04b.makePayout_exact, makePayout_uncovered_panics)", "claim payouts: the split of the loss over the providers pays in full (C04r.split_pays_in_full_with_two_spare_units) when every provider's share of the unused collateral is at least two units; it can fall short otherwise (C04r.split_short_at_full_utilisation, recorded under C04: the handler runs under recover, the proposal fails, the chain goes on)", "claim payouts: totality of the payout is proved under a feasibility condition on the provider snapshot that is not an invariant (collateral can leave while a claim is open when blocks are far apart); since the repair a47d31f a payout that panics fails the proposal instead of halting the chain, which is what the histories exercise",
                        "block-time gaps up to ten protection periods, parameters as drawn by the profile generators",
                        "mint: the split of the block provision cannot fail when the two ratios (community pool / supply, stake-for-shield pool / supply) are non-negative and add up to at most one (C01m.split_ok_of_ratios, and split_panics_iff for the converse); both pools are coins held inside the supply, in different module accounts"],
    },
    "C09": {
        "lean": ["Shentu.Props.C09", "Shentu.Props.C09q", "Shentu.Props.C09q2"],
        "engines": [chain("staking", 128, 1280, ops=150, tops=250), chain("shield", 128, 1280, ops=90, tops=160), chain("payout", 48, 480, ops=120, tops=200), UBDQ, EXPORT],
        "trusted": ["modelled, not verified: the Cosmos SDK staking keeper (power index, unbonding queues, slashing), baseapp, Tendermint; the model is the specification of what consensus must see, compared on every block with the updates the real application returns from EndBlock",
                    "the consensus view is accumulated by the harness from the EndBlock responses, starting from the bonded validators of genesis"],
        "assumptions": ["consensus public keys are unique among validators (refused otherwise by the SDK)", "power reduction 10^6 (the default)", "a tie in power exactly at the last seat is not decided by the monitor (counted as sit.c09.tie_at_the_cut)",
                        "genesis does not bond more validators than MaxValidators", "claim locks and payouts may postpone or shrink unbonding entries (shield profile): only 'never earlier' is checked there", UBDQ_ASSUME],
    },
    "C10": {
        "lean": ["Shentu.Props.C10", "Shentu.Props.C20order"],
        "engines": [chain("determinism", 80, 800, ops=100, tops=200)],
        "trusted": ["modelled, not verified: the Go runtime, goleveldb, IAVL, the Cosmos SDK and Burrow (their own map iterations and caches are outside the inventory, which covers the repository's consensus code)",
                    "the restart theorem assumes that a node's in-memory state is a function of its committed state; the restarted-node runs are the validation of that hypothesis"],
        "assumptions": ["determinism of the Go code itself cannot be a theorem about a functional model (the model is deterministic by construction): the proof part is the regenerated inventory of nondeterminism sites, the order-independence of the one map iteration that feeds state, and restart invisibility under cache coherence; hash equality of real instances is decided by differential execution",
                        "nodes are compared in one process (Go randomises every map iteration, so two instances in one process do see different orders)"],
    },
    "C20": {
        "lean": ["Shentu.Props.C20", "Shentu.Props.C20order", "Shentu.Props.C20G", "Shentu.Props.C20GCert", "Shentu.Props.C20GGov"],
        "engines": [chain("export", 96, 960, ops=100, tops=200), BLOCKHASH],
        "trusted": SDK_TRUST + ["the comparison of the original and the imported node is made by the harness on the modules' exported genesis JSON and the harness's observations (bank, vesting, oracle, shield, gov, cert, cvm, staking, distribution); SDK modules without observers (slashing, mint, upgrade, evidence, ibc, crisis) are compared through the re-export only"],
        "assumptions": ["Tendermint's convention: the state exported after block H is imported as the start of block H+1; height-indexed oracle deadlines move by that one block, and a task that was pending at the export is then aggregated one block later (its outcome may differ through what happens in that block: only collateral and withdrawals are compared for such histories)",
                        "an address whose balance is zero is exported by the SDK bank module with an empty coin list and not stored on import: treated as equal",
                        "the stored count of waiting blocks of a task is re-based to the remaining blocks on import"],
    },
    "C16": {
        "lean": ["Shentu.Props.C16", "Shentu.Props.C16m", "Shentu.Props.C16m2"],
        "drivers": ["vmdriver", "chaindriver"],
        "engines": VM_ENGINES + [VM_ZEROLEN, BLOCKHASH],
        "trusted": VM_TRUST + ["Shentu.Gen.EVM is regenerated from vm/contract.go by the translator; the refinement theorems are stated about the regenerated definitions"],
        "assumptions": VM_ASSUME + ["the specification side of the comparison is the interpreter model with every recorded deviation switched off (Quirks.spec); gas, GAS/GASLIMIT-dependent programs and out-of-gas runs are not compared (gas accounting may differ)"],
    },
    "C17": {
        "lean": ["Shentu.Props.C17", "Shentu.Props.C17g", "Shentu.Props.C18vm", "Shentu.Props.C10"],
        "drivers": ["vmdriver", "chaindriver"],
        "engines": VM_ENGINES + [VM_ZEROLEN, chain("bankvm", 64, 640, ops=100), WASM],
        "trusted": VM_TRUST + ["the final size of every frame's memory is read by the harness from the interpreter's own memory objects (the provider vm.NewCVM installs by default, obtained by reflection and handed on unchanged); programs of the profile 'zerolen' also return their own MSIZE and the two readings are compared",
                               "eWASM execution (Burrow's execution/wasm on perlin-network/life) is not modelled: it is exercised through DeliverTx by the profile 'wasm' and judged on gas used against a lower bound of the instructions executed"],
        "assumptions": VM_ASSUME + ["the theorems of Props/C17 are about the EVM interpreter (vm/); contracts deployed with IsEWASM run on an engine that has no gas accounting at all (recorded: C17-ewasm_unmetered)",
                                    "what is charged depends on parameters (the gas rate) and meters that must be read from the store at every execution: the regenerated inventory of in-memory state in keepers and packages (C10.no_unreviewed_sites) is an obligation of this property as well"],
    },
    "C01": dict(BANKVM, lean=["Shentu.Props.C01", "Shentu.Props.C01s", "Shentu.Props.C01vm", "Shentu.Props.C01run", "Shentu.Props.C01m", "Shentu.Props.C01tx", "Shentu.Props.C01txLib"], drivers=["chaindriver", "vmdriver"],
                engines=[chain("bankvm", 96, 960, ops=100), chain("gov", 48, 480, ops=100), chain("oracle", 48, 480), chain("shield", 32, 320, ops=120), chain("staking", 32, 320, ops=100),
                         vm("calls", 16000, 160000), vm("create", 4800, 48000), EXPORT, MINT],
                assumptions=BANKVM["assumptions"] + [MINT_ASSUME, "arbitrary contract programs (value calls, SELFDESTRUCT to any beneficiary, failing frames) are covered by the VM engine: the accounts of the interpreter's cache hold the same sum before and after every generated call tree; the write-back of that cache to the bank is covered by the chain engine's library programs"]),
    "C18": dict(BANKVM, lean=["Shentu.Props.C18", "Shentu.Props.C18vm", "Shentu.Props.C01tx"], drivers=["chaindriver", "vmdriver"],
                engines=[chain("bankvm", 160, 1600, ops=100), vm("calls", 16000, 320000), vm("create", 4800, 48000), EXPORT]),
    "C19": dict(BANKVM, lean=["Shentu.Props.C19", "Shentu.Props.C19H", "Shentu.Props.C01tx", "Shentu.Props.C19vm"], engines=[chain("bankvm", 160, 1600, ops=100), chain("payout", 48, 480, ops=120, tops=200), EXPORT],
                assumptions=BANKVM["assumptions"] + ["the one path outside the bank and cvm modules that touches the lock — a shield claim paid out of the stake of an account with locked coins — is exercised by the engine 'payout' on providers turned into ManualVestingAccounts in a discarded cache context (an account with locked coins may delegate them and deposit collateral)"]),
    "C11": dict(GOV, lean=["Shentu.Props.C11", "Shentu.Props.C11H", "Shentu.Props.ShieldTie"]),
    "C12": dict(GOV, lean=["Shentu.Props.C12", "Shentu.Props.C12T"], engines=GOV["engines"] + [chain("shield", 48, 480, ops=160)],
                assumptions=["governance parameters are constant along a history", "shield-claim proposals (certifier round, then the certified identities' stake round) are exercised by the shield engine; their tally is restated independently by the monitor stake_round_rule with the certified identities' bonded stake as the quorum base"]),
    "C13": dict(GOV, lean=["Shentu.Props.C13", "Shentu.Props.C13H"]),
    "C15": {
        "lean": ["Shentu.Props.C15", "Shentu.Props.C15H", "Shentu.Props.C14F"],
        "engines": [chain("oracle", 160, 1600), EXPORT],
        "trusted": SDK_TRUST,
        "assumptions": ["block heights are consecutive", "the oracle parameters are constant along a history",
                        "bounty_bounded is proved at the level of the share arithmetic and the equality of the two formula copies; the threading of the shares through the operator records is covered by the correspondence check"],
    },
    "C14": {
        "lean": ["Shentu.Props.C14", "Shentu.Props.C14F"],
        "engines": [chain("oracle", 160, 1600), EXPORT],
        "trusted": SDK_TRUST,
        "assumptions": ["block heights are consecutive", "the oracle parameters are constant along a history"],
    },
}
