"""Per-property configuration of ./check."""

def chain(profile, qn, tn, ops=80, tops=None, extra=None):
    return {"kind": "chain", "profile": profile, "extra": extra or [],
            "quick": {"n": qn, "ops": ops, "shards": 16}, "thorough": {"n": tn, "ops": tops or ops * 2, "shards": 16}}

SDK_TRUST = ["modelled, not verified: Cosmos SDK bank/auth/staking/distribution, baseapp transaction atomicity, IAVL, Tendermint"]

GOV = {"engines": [chain("gov", 160, 1600, ops=100)], "trusted": SDK_TRUST + ["the staking module is an observed input of the tally (bonded validators, delegations, bonded total)"],
       "assumptions": ["governance parameters are constant along a history", "shield-claim proposals are exercised by the shield checks"]}

PROPS = {
    "C11": dict(GOV, lean=["Shentu.Props.C11"]),
    "C12": dict(GOV, lean=["Shentu.Props.C12"]),
    "C13": dict(GOV, lean=["Shentu.Props.C13"]),
    "C15": {
        "lean": ["Shentu.Props.C15"],
        "engines": [chain("oracle", 160, 1600)],
        "trusted": SDK_TRUST,
        "assumptions": ["block heights are consecutive", "the oracle parameters are constant along a history",
                        "bounty_bounded is proved at the level of the share arithmetic and the equality of the two formula copies; the threading of the shares through the operator records is covered by the correspondence check"],
    },
    "C14": {
        "lean": ["Shentu.Props.C14"],
        "engines": [chain("oracle", 160, 1600)],
        "trusted": SDK_TRUST,
        "assumptions": ["block heights are consecutive", "the oracle parameters are constant along a history"],
    },
}
