package main

import (
	"bytes"
	"fmt"
	"go/ast"
	"go/printer"
	"go/token"
	"strings"
)

// Expression translation: a Go expression over sdk.Int / sdk.Dec / int64 values is
// rewritten to a Lean term over Int (and the model's Dec).  Leaves are resolved
// through a per-site variable map keyed by the *source text* of the leaf.

type Var struct {
	Lean string // Lean term
	Kind string // "int" | "dec" | "bool" | "coins"
}

type xerr struct{ msg string }

func (e xerr) Error() string { return e.msg }

func src(fset *token.FileSet, n ast.Node) string {
	var b bytes.Buffer
	printer.Fprint(&b, fset, n)
	return strings.Join(strings.Fields(b.String()), " ")
}

type tx struct {
	fset *token.FileSet
	vars map[string]Var
	used map[string]bool
}

// tr returns (lean term, kind).
func (t *tx) tr(e ast.Expr) (string, string) {
	s := src(t.fset, e)
	if v, ok := t.vars[s]; ok {
		t.used[v.Lean] = true
		return v.Lean, v.Kind
	}
	switch x := e.(type) {
	case *ast.ParenExpr:
		a, k := t.tr(x.X)
		return "(" + a + ")", k
	case *ast.BasicLit:
		if x.Kind == token.INT {
			return "(" + x.Value + " : Int)", "int"
		}
	case *ast.UnaryExpr:
		a, k := t.tr(x.X)
		switch x.Op {
		case token.NOT:
			return "(!" + a + ")", "bool"
		case token.SUB:
			return "(-" + a + ")", k
		}
	case *ast.BinaryExpr:
		a, ka := t.tr(x.X)
		b, _ := t.tr(x.Y)
		switch x.Op {
		case token.ADD:
			return "(" + a + " + " + b + ")", ka
		case token.SUB:
			return "(" + a + " - " + b + ")", ka
		case token.MUL:
			return "(" + a + " * " + b + ")", ka
		case token.QUO:
			return "(Int.tdiv " + a + " " + b + ")", ka
		case token.REM:
			return "(Int.tmod " + a + " " + b + ")", ka
		case token.LSS:
			return "(decide (" + a + " < " + b + "))", "bool"
		case token.LEQ:
			return "(decide (" + a + " ≤ " + b + "))", "bool"
		case token.GTR:
			return "(decide (" + a + " > " + b + "))", "bool"
		case token.GEQ:
			return "(decide (" + a + " ≥ " + b + "))", "bool"
		case token.EQL:
			return "(" + a + " == " + b + ")", "bool"
		case token.NEQ:
			return "(" + a + " != " + b + ")", "bool"
		case token.LAND:
			return "(" + a + " && " + b + ")", "bool"
		case token.LOR:
			return "(" + a + " || " + b + ")", "bool"
		}
	case *ast.CallExpr:
		// constructors
		fn := src(t.fset, x.Fun)
		switch fn {
		case "sdk.NewInt", "sdk.NewIntFromUint64", "int64", "uint64", "sdk.NewDec":
			if len(x.Args) == 1 {
				a, _ := t.tr(x.Args[0])
				if fn == "sdk.NewDec" {
					return "(Dec.ofInt " + a + ")", "dec"
				}
				return a, "int"
			}
		case "sdk.ZeroInt":
			return "(0 : Int)", "int"
		case "sdk.OneInt":
			return "(1 : Int)", "int"
		case "sdk.ZeroDec":
			return "Dec.zero", "dec"
		case "sdk.OneDec":
			return "Dec.one", "dec"
		case "sdk.NewDecFromInt":
			if len(x.Args) == 1 {
				a, _ := t.tr(x.Args[0])
				return "(Dec.ofInt " + a + ")", "dec"
			}
		case "vm.Min":
			if len(x.Args) == 2 {
				a, _ := t.tr(x.Args[0])
				b, _ := t.tr(x.Args[1])
				return "(min " + a + " " + b + ")", "int"
			}
		case "sdk.MinInt":
			if len(x.Args) == 2 {
				a, _ := t.tr(x.Args[0])
				b, _ := t.tr(x.Args[1])
				return "(min " + a + " " + b + ")", "int"
			}
		case "sdk.MaxInt":
			if len(x.Args) == 2 {
				a, _ := t.tr(x.Args[0])
				b, _ := t.tr(x.Args[1])
				return "(max " + a + " " + b + ")", "int"
			}
		}
		if sel, ok := x.Fun.(*ast.SelectorExpr); ok {
			recv, kr := t.tr(sel.X)
			var args []string
			for _, a := range x.Args {
				s, _ := t.tr(a)
				args = append(args, s)
			}
			m := sel.Sel.Name
			bin := func(op string) (string, string) { return "(decide (" + recv + " " + op + " " + args[0] + "))", "bool" }
			if kr == "dec" {
				switch m {
				case "LT":
					return "(Dec.lt " + recv + " " + args[0] + ")", "bool"
				case "GT":
					return "(Dec.lt " + args[0] + " " + recv + ")", "bool"
				case "LTE":
					return "(Dec.le " + recv + " " + args[0] + ")", "bool"
				case "GTE":
					return "(Dec.le " + args[0] + " " + recv + ")", "bool"
				case "Equal":
					return "(Dec.beq " + recv + " " + args[0] + ")", "bool"
				case "IsZero":
					return "(Dec.isZero " + recv + ")", "bool"
				case "IsPositive":
					return "(Dec.isPositive " + recv + ")", "bool"
				case "IsNegative":
					return "(Dec.isNegative " + recv + ")", "bool"
				case "Add":
					return "(Dec.add " + recv + " " + args[0] + ")", "dec"
				case "Sub":
					return "(Dec.sub " + recv + " " + args[0] + ")", "dec"
				case "Mul":
					return "(Dec.mul " + recv + " " + args[0] + ")", "dec"
				case "MulTruncate":
					return "(Dec.mulTruncate " + recv + " " + args[0] + ")", "dec"
				case "Quo":
					return "(Dec.quo " + recv + " " + args[0] + ")", "dec"
				case "QuoTruncate":
					return "(Dec.quoTruncate " + recv + " " + args[0] + ")", "dec"
				case "MulInt":
					return "(Dec.mulInt " + recv + " " + args[0] + ")", "dec"
				case "QuoInt":
					return "(Dec.quoInt " + recv + " " + args[0] + ")", "dec"
				case "TruncateInt":
					return "(Dec.truncateInt " + recv + ")", "int"
				case "RoundInt":
					return "(Dec.roundInt " + recv + ")", "int"
				}
			} else {
				switch m {
				case "LT":
					return bin("<")
				case "GT":
					return bin(">")
				case "LTE":
					return bin("≤")
				case "GTE":
					return bin("≥")
				case "Equal":
					return "(" + recv + " == " + args[0] + ")", "bool"
				case "IsZero":
					return "(" + recv + " == 0)", "bool"
				case "IsPositive":
					return "(decide (" + recv + " > 0))", "bool"
				case "IsNegative":
					return "(decide (" + recv + " < 0))", "bool"
				case "Add", "AddRaw":
					return "(" + recv + " + " + args[0] + ")", "int"
				case "Sub", "SubRaw":
					return "(" + recv + " - " + args[0] + ")", "int"
				case "Mul", "MulRaw":
					return "(" + recv + " * " + args[0] + ")", "int"
				case "Quo", "QuoRaw":
					return "(Int.tdiv " + recv + " " + args[0] + ")", "int"
				case "Neg":
					return "(-" + recv + ")", "int"
				case "ToDec":
					return "(Dec.ofInt " + recv + ")", "dec"
				case "Before": // time.Time
					return "(decide (" + recv + " < " + args[0] + "))", "bool"
				case "After":
					return "(decide (" + recv + " > " + args[0] + "))", "bool"
				case "Equals": // addresses
					return "(" + recv + " == " + args[0] + ")", "bool"
				case "Microseconds":
					return "(Int.tdiv " + recv + " 1000)", "int"
				}
			}
		}
	}
	panic(xerr{fmt.Sprintf("untranslatable expression %q", s)})
}

// translateUsed also reports which Lean leaves were used.
func translateUsed(fset *token.FileSet, e ast.Expr, vars map[string]Var) (out string, kind string, used []string, err error) {
	defer func() {
		if r := recover(); r != nil {
			if xe, ok := r.(xerr); ok {
				err = xe
				return
			}
			panic(r)
		}
	}()
	t := &tx{fset: fset, vars: vars, used: map[string]bool{}}
	out, kind = t.tr(e)
	for k := range t.used {
		used = append(used, k)
	}
	return
}

func translate(fset *token.FileSet, e ast.Expr, vars map[string]Var) (out string, kind string, err error) {
	defer func() {
		if r := recover(); r != nil {
			if xe, ok := r.(xerr); ok {
				err = xe
				return
			}
			panic(r)
		}
	}()
	t := &tx{fset: fset, vars: vars, used: map[string]bool{}}
	out, kind = t.tr(e)
	return
}
