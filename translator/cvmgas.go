package main

// genCvmGas: how x/cvm/keeper converts the transaction's remaining gas into the VM's allowance and the VM's use back into a
// charge on the transaction's gas meter (C17).  The arithmetic is uint64 in Go; the sites are extracted over Int and the model
// (Model/CvmGas.lean) applies the wrap-around where Go's does.
func genCvmGas(fc *fileCache) {
	g := &genFile{ns: "CvmGas"}
	kp := "x/cvm/keeper/keeper.go"
	v, ok := intConst(fc, kp, "TransactionGasLimit")
	g.fact("transactionGasLimit", "Int", v, kp+" TransactionGasLimit")
	g.fact("transactionGasLimit_found", "Bool", boolStr(ok), "")
	g.found = append(g.found, "transactionGasLimit_found")
	og := map[string]Var{"ctx.GasMeter().Limit()": iv("limit"), "ctx.GasMeter().GasConsumed()": iv("consumed"), "gasCurrent": iv("gasCurrent"),
		"gasRate": iv("rate"), "originalGas": iv("originalGas"), "TransactionGasLimit": iv("txGasLimit")}
	emitSite(fc, g, Site{Name: "gasCurrent", File: kp, Func: "getOriginalGas", Loc: assignTo("gasCurrent", 0),
		Params: "(limit consumed : Int)", Type: "Int", Default: "0", Vars: og})
	emitSite(fc, g, Site{Name: "allowanceRaw", File: kp, Func: "getOriginalGas", Loc: assignTo("originalGas", 0),
		Params: "(gasCurrent rate : Int)", Type: "Int", Default: "0", Vars: og})
	emitSite(fc, g, Site{Name: "allowanceOverflowed", File: kp, Func: "getOriginalGas", Loc: ifCond("originalGas < gasCurrent", 0),
		Params: "(originalGas gasCurrent : Int)", Type: "Bool", Default: "false", Vars: og})
	emitSite(fc, g, Site{Name: "allowanceCapped", File: kp, Func: "getOriginalGas", Loc: assignTo("originalGas", 1),
		Params: "(originalGas txGasLimit : Int)", Type: "Int", Default: "0", Vars: og})
	n := 0
	if fd := fc.fn(kp, "getOriginalGas"); fd != nil {
		n = len(fd.Body.List)
	}
	g.fact("getOriginalGasStatements", "Nat", itoa(n), kp+" getOriginalGas: number of top-level statements (no further branch)")
	tx := map[string]Var{"gasTracker": iv("gasLeft"), "originalGas": iv("originalGas"), "newCVM.GetRefund()": iv("refund"), "fee": iv("fee"), "gasRate": iv("rate")}
	emitSite(fc, g, Site{Name: "afterRefund", File: kp, Func: "Tx", Loc: assignTo("gasTracker", 2),
		Params: "(gasLeft originalGas refund : Int)", Type: "Int", Default: "0", Vars: tx})
	emitSite(fc, g, Site{Name: "fee", File: kp, Func: "Tx", Loc: assignTo("fee", 0),
		Params: "(originalGas gasLeft : Int)", Type: "Int", Default: "0", Vars: tx})
	emitSite(fc, g, Site{Name: "charged", File: kp, Func: "Tx", Loc: callArg("ctx.GasMeter().ConsumeGas", 0, 0),
		Params: "(fee rate : Int)", Type: "Int", Default: "0", Vars: tx})
	// the refund is granted only when the execution did not fail, and the charge is made before the error is returned
	cond := ""
	if fd := fc.fn(kp, "Tx"); fd != nil {
		if e := ifCond("err == nil", 0)(fc, fd); e != nil {
			cond = src(fc.fset, e)
		}
	}
	g.fact("refundOnlyIf", "String", quote(cond), kp+" Tx: the condition of the refund branch")
	g.write("CvmGas", nil)
}

func itoa(n int) string {
	if n == 0 {
		return "0"
	}
	s := ""
	for n > 0 {
		s = string(rune('0'+n%10)) + s
		n /= 10
	}
	return s
}
