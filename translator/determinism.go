package main

import (
	"encoding/json"
	"fmt"
	"go/ast"
	"go/parser"
	"go/token"
	"os"
	"path/filepath"
	"sort"
	"strings"
)

// Inventory of the constructs through which a Go program can behave differently on two nodes or across a restart
// (C10): iteration over maps, wall-clock time, random numbers, goroutines and select, floating point, and in-memory
// state (assignments through a keeper method's receiver or to a package-level variable).
// Every site in consensus code must be listed, with its justification, in determinism_reviewed.json;
// the generated file exposes the sites that are not.

type detSite struct {
	File, Func, Kind, Expr string
	Line                   int
}

type reviewed struct {
	File, Func, Kind, Expr, Why string
}

func consensusFile(rel string) bool {
	if strings.HasSuffix(rel, "_test.go") || strings.HasSuffix(rel, ".pb.go") || strings.HasSuffix(rel, ".pb.gw.go") {
		return false
	}
	for _, skip := range []string{"/client/", "/simulation/", "/testutil", "/teststaking/", "/testshield/", "/testgov/", "test_common.go", "/legacy/", "/specs/", "/cmd/", "toolsets/", "tests/", "vm/tests", "common/tests"} {
		if strings.Contains(rel, skip) {
			return false
		}
	}
	return strings.HasPrefix(rel, "x/") || strings.HasPrefix(rel, "app/") || strings.HasPrefix(rel, "vm/") || strings.HasPrefix(rel, "common/")
}

func isMapType(e ast.Expr) bool {
	switch t := e.(type) {
	case *ast.MapType:
		return true
	case *ast.ParenExpr:
		return isMapType(t.X)
	}
	return false
}

func lastName(e ast.Expr) string {
	switch t := e.(type) {
	case *ast.Ident:
		return t.Name
	case *ast.SelectorExpr:
		return t.Sel.Name
	case *ast.ParenExpr:
		return lastName(t.X)
	case *ast.StarExpr:
		return lastName(t.X)
	case *ast.CallExpr:
		return lastName(t.Fun) + "()"
	}
	return ""
}

func genDeterminism(repo string) {
	fset := token.NewFileSet()
	type pf struct {
		rel string
		f   *ast.File
	}
	var files []pf
	filepath.Walk(repo, func(p string, info os.FileInfo, err error) error {
		if err != nil || info.IsDir() || !strings.HasSuffix(p, ".go") {
			return nil
		}
		rel, _ := filepath.Rel(repo, p)
		if !consensusFile(rel) {
			return nil
		}
		f, err := parser.ParseFile(fset, p, nil, 0)
		if err == nil {
			files = append(files, pf{rel, f})
		}
		return nil
	})
	sort.Slice(files, func(i, j int) bool { return files[i].rel < files[j].rel })
	// names declared with a map type anywhere (variables, fields, results of functions, type names)
	mapNames := map[string]bool{}
	mapTypes := map[string]bool{}
	for _, x := range files {
		ast.Inspect(x.f, func(n ast.Node) bool {
			switch t := n.(type) {
			case *ast.TypeSpec:
				if isMapType(t.Type) {
					mapTypes[t.Name.Name] = true
				}
			}
			return true
		})
	}
	isMapish := func(e ast.Expr) bool {
		if e == nil {
			return false
		}
		if isMapType(e) {
			return true
		}
		if id, ok := e.(*ast.Ident); ok && mapTypes[id.Name] {
			return true
		}
		if se, ok := e.(*ast.SelectorExpr); ok && mapTypes[se.Sel.Name] {
			return true
		}
		return false
	}
	for _, x := range files {
		ast.Inspect(x.f, func(n ast.Node) bool {
			switch t := n.(type) {
			case *ast.Field:
				if isMapish(t.Type) {
					for _, nm := range t.Names {
						mapNames[nm.Name] = true
					}
				}
			case *ast.ValueSpec:
				if isMapish(t.Type) {
					for _, nm := range t.Names {
						mapNames[nm.Name] = true
					}
				}
				for i, v := range t.Values {
					if cl, ok := v.(*ast.CompositeLit); ok && isMapish(cl.Type) && i < len(t.Names) {
						mapNames[t.Names[i].Name] = true
					}
					if ce, ok := v.(*ast.CallExpr); ok && len(ce.Args) > 0 && lastName(ce.Fun) == "make" && isMapish(ce.Args[0]) && i < len(t.Names) {
						mapNames[t.Names[i].Name] = true
					}
				}
			case *ast.AssignStmt:
				for i, v := range t.Rhs {
					if i >= len(t.Lhs) {
						break
					}
					if cl, ok := v.(*ast.CompositeLit); ok && isMapish(cl.Type) {
						mapNames[lastName(t.Lhs[i])] = true
					}
					if ce, ok := v.(*ast.CallExpr); ok && len(ce.Args) > 0 && lastName(ce.Fun) == "make" && isMapish(ce.Args[0]) {
						mapNames[lastName(t.Lhs[i])] = true
					}
				}
			case *ast.FuncDecl:
				if t.Type.Results != nil && len(t.Type.Results.List) > 0 && isMapish(t.Type.Results.List[0].Type) {
					mapNames[t.Name.Name+"()"] = true
				}
			}
			return true
		})
	}
	// package-level variables (per directory): assigning to one at run time is in-memory state that a restart loses
	pkgVars := map[string]map[string]bool{}
	for _, x := range files {
		dir := filepath.Dir(x.rel)
		if pkgVars[dir] == nil {
			pkgVars[dir] = map[string]bool{}
		}
		for _, d := range x.f.Decls {
			if gd, ok := d.(*ast.GenDecl); ok && gd.Tok == token.VAR {
				for _, sp := range gd.Specs {
					if vs, ok := sp.(*ast.ValueSpec); ok {
						for _, nm := range vs.Names {
							pkgVars[dir][nm.Name] = true
						}
					}
				}
			}
		}
	}
	rootIdent := func(e ast.Expr) string {
		for {
			switch t := e.(type) {
			case *ast.Ident:
				return t.Name
			case *ast.SelectorExpr:
				e = t.X
			case *ast.IndexExpr:
				e = t.X
			case *ast.StarExpr:
				e = t.X
			case *ast.ParenExpr:
				e = t.X
			default:
				return ""
			}
		}
	}
	var sites []detSite
	var meterSites []string
	for _, x := range files {
		for _, d := range x.f.Decls {
			fd, ok := d.(*ast.FuncDecl)
			if !ok || fd.Body == nil {
				continue
			}
			add := func(n ast.Node, kind, expr string) {
				sites = append(sites, detSite{File: x.rel, Func: fd.Name.Name, Kind: kind, Expr: expr, Line: fset.Position(n.Pos()).Line})
			}
			// in-memory state: assignments through the method receiver (a field of a keeper, a map or pointer it holds)
			// and assignments to package-level variables
			recv := ""
			if fd.Recv != nil && len(fd.Recv.List) == 1 && len(fd.Recv.List[0].Names) == 1 {
				recv = fd.Recv.List[0].Names[0].Name
			}
			locals := map[string]bool{}
			ast.Inspect(fd.Body, func(n ast.Node) bool {
				if as, ok := n.(*ast.AssignStmt); ok && as.Tok == token.DEFINE {
					for _, l := range as.Lhs {
						if id, ok := l.(*ast.Ident); ok {
							locals[id.Name] = true
						}
					}
				}
				return true
			})
			checkLHS := func(n ast.Node, l ast.Expr) {
				if _, plain := l.(*ast.Ident); plain {
					id := l.(*ast.Ident).Name
					if id == "_" {
						return
					}
					if pkgVars[filepath.Dir(x.rel)][id] && !locals[id] && fd.Name.Name != "init" {
						add(n, "memory-state", src(fset, l))
					}
					return
				}
				r := rootIdent(l)
				if r != "" && r == recv && strings.Contains(x.rel, "/keeper/") {
					add(n, "memory-state", src(fset, l))
				} else if r != "" && pkgVars[filepath.Dir(x.rel)][r] && !locals[r] && fd.Name.Name != "init" {
					add(n, "memory-state", src(fset, l))
				}
			}
			ast.Inspect(fd.Body, func(n ast.Node) bool {
				switch t := n.(type) {
				case *ast.AssignStmt:
					if t.Tok != token.DEFINE {
						for _, l := range t.Lhs {
							checkLHS(t, l)
						}
					}
				case *ast.IncDecStmt:
					checkLHS(t, t.X)
				case *ast.CallExpr:
					// writes that are not assignments: sync/atomic stores and the like on something the receiver (or a package
					// variable) holds, e.g. atomic.StoreUint64(k.rate, v) on a pointer shared by all copies of a keeper
					fn := src(fset, t.Fun)
					if strings.HasPrefix(fn, "atomic.Store") || strings.HasPrefix(fn, "atomic.Add") || strings.HasPrefix(fn, "atomic.Swap") ||
						strings.HasPrefix(fn, "atomic.CompareAndSwap") || strings.HasSuffix(fn, ".Store") && len(t.Args) >= 1 && strings.Contains(fn, "atomic") {
						if len(t.Args) > 0 {
							a := t.Args[0]
							if u, ok := a.(*ast.UnaryExpr); ok && u.Op == token.AND {
								a = u.X
							}
							r := rootIdent(a)
							if r != "" && (r == recv || (pkgVars[filepath.Dir(x.rel)][r] && !locals[r])) {
								add(t, "memory-state", fn+"("+src(fset, t.Args[0])+", …)")
							}
						}
					}
					// methods of sync types held by the receiver: k.mu.Lock(), k.cache.Store(..), k.once.Do(..)
					if se, ok := t.Fun.(*ast.SelectorExpr); ok {
						m := se.Sel.Name
						if (m == "Lock" || m == "RLock" || m == "Do" || m == "LoadOrStore") && rootIdent(se.X) == recv && recv != "" && strings.Contains(x.rel, "/keeper/") {
							add(t, "memory-state", src(fset, t.Fun))
						}
					}
				}
				return true
			})
			// bytes handed out by a store (Get, an iterator's Key / Value) belong to the store: cachekv, gaskv and iavl return
			// the slice their in-memory node holds, so writing into it changes the node's memory without a Set — a reverted
			// transaction then leaves a trace that a node restarted from its database does not have
			storeBytes := map[string]bool{}
			ast.Inspect(fd.Body, func(n ast.Node) bool {
				as, ok := n.(*ast.AssignStmt)
				if !ok || len(as.Lhs) != 1 || len(as.Rhs) != 1 {
					return true
				}
				id, ok := as.Lhs[0].(*ast.Ident)
				call, ok2 := as.Rhs[0].(*ast.CallExpr)
				if !ok || !ok2 {
					return true
				}
				if se, ok := call.Fun.(*ast.SelectorExpr); ok {
					rn := strings.ToLower(src(fset, se.X))
					if (se.Sel.Name == "Get" && strings.Contains(rn, "store")) ||
						((se.Sel.Name == "Value" || se.Sel.Name == "Key") && strings.Contains(rn, "iter")) {
						storeBytes[id.Name] = true
					}
				}
				return true
			})
			if len(storeBytes) > 0 {
				isStoreBytes := func(e ast.Expr) bool {
					for {
						switch t := e.(type) {
						case *ast.SliceExpr:
							e = t.X
						case *ast.IndexExpr:
							e = t.X
						case *ast.ParenExpr:
							e = t.X
						case *ast.Ident:
							return storeBytes[t.Name]
						default:
							return false
						}
					}
				}
				ast.Inspect(fd.Body, func(n ast.Node) bool {
					switch t := n.(type) {
					case *ast.AssignStmt:
						for _, l := range t.Lhs {
							if ix, ok := l.(*ast.IndexExpr); ok && isStoreBytes(ix.X) {
								add(t, "store-bytes-mutated", src(fset, l))
							}
						}
					case *ast.IncDecStmt:
						if ix, ok := t.X.(*ast.IndexExpr); ok && isStoreBytes(ix.X) {
							add(t, "store-bytes-mutated", src(fset, t.X))
						}
					case *ast.CallExpr:
						fn := src(fset, t.Fun)
						writesFirst := fn == "copy" || strings.HasSuffix(fn, ".PutUint16") || strings.HasSuffix(fn, ".PutUint32") ||
							strings.HasSuffix(fn, ".PutUint64") || strings.HasSuffix(fn, ".PutUvarint") || strings.HasSuffix(fn, ".PutVarint") ||
							fn == "append" || fn == "sort.Slice" || fn == "rand.Read"
						if writesFirst && len(t.Args) > 0 && isStoreBytes(t.Args[0]) {
							add(t, "store-bytes-mutated", fn+"("+src(fset, t.Args[0])+", …)")
						}
					}
					return true
				})
			}
			ast.Inspect(fd.Body, func(n ast.Node) bool {
				switch t := n.(type) {
				case *ast.RangeStmt:
					nm := lastName(t.X)
					if nm != "" && mapNames[nm] || isMapType(t.X) {
						add(t, "map-range", src(fset, t.X))
					}
					if cl, ok := t.X.(*ast.CompositeLit); ok && isMapish(cl.Type) {
						add(t, "map-range", src(fset, t.X))
					}
				case *ast.GoStmt:
					add(t, "goroutine", src(fset, t.Call.Fun))
				case *ast.SelectStmt:
					add(t, "select", "select")
				case *ast.CallExpr:
					s := src(fset, t.Fun)
					if s == "time.Now" || s == "time.Since" || strings.HasPrefix(s, "rand.") || s == "os.Getenv" || s == "os.Hostname" {
						add(t, "environment", s)
					}
					// C17: the transaction's gas meter is the one place where work is charged; code that swaps it for another
					// (an infinite one, a private one) takes the work that follows off the bill
					if strings.HasSuffix(s, ".WithGasMeter") || strings.HasSuffix(s, ".WithBlockGasMeter") || strings.HasSuffix(s, "NewInfiniteGasMeter") || strings.HasSuffix(s, ".NewGasMeter") {
						meterSites = append(meterSites, fmt.Sprintf("%s:%d %s `%s`", x.rel, fset.Position(t.Pos()).Line, fd.Name.Name, s))
					}
					if s == "float64" || s == "float32" || strings.HasPrefix(s, "math.") && s != "math.MaxInt64" && s != "math.MaxUint64" {
						add(t, "float", s)
					}
				}
				return true
			})
		}
	}
	var rv []reviewed
	if bz, err := os.ReadFile(filepath.Join(filepath.Dir(os.Args[0]), "..", "determinism_reviewed.json")); err == nil {
		json.Unmarshal(bz, &rv)
	}
	isReviewed := func(s detSite) bool {
		for _, r := range rv {
			if r.File == s.File && r.Func == s.Func && r.Kind == s.Kind && r.Expr == s.Expr {
				return true
			}
		}
		return false
	}
	g := &genFile{ns: "Determinism"}
	var all, un []string
	for _, s := range sites {
		d := fmt.Sprintf("%s %s %s `%s`", s.File, s.Func, s.Kind, s.Expr)
		all = append(all, d)
		if !isReviewed(s) {
			un = append(un, fmt.Sprintf("%s:%d %s %s `%s`", s.File, s.Line, s.Func, s.Kind, s.Expr))
		}
	}
	g.fact("filesScanned", "Nat", fmt.Sprint(len(files)), "consensus-relevant Go files scanned (x/, app/, vm/, common/ without tests, clients, simulation, generated code)")
	g.fact("sites", "List String", strList(all), "every construct through which two nodes could diverge")
	g.fact("unreviewed", "List String", strList(un), "sites without an entry in /verif/translator/determinism_reviewed.json")
	g.fact("gasMeterSites", "List String", strList(meterSites), "C17: places in consensus code where a context's gas meter is replaced (none on the pinned tree)")
	g.write("Determinism", nil)
}
