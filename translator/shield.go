package main

import (
	"go/ast"
	"strings"
)

// stmtSrcsBetween: the source text (one line each, if-statements as "if COND { BODY }") of the statements of the innermost block of fn
// that contains a statement starting with `from`, from that statement up to (not including) the first later statement containing `upTo`.
func stmtSrcsBetween(fc *fileCache, rel, fn, from, upTo string) []string {
	fd := fc.fn(rel, fn)
	if fd == nil {
		return nil
	}
	var res []string
	ast.Inspect(fd.Body, func(nd ast.Node) bool {
		blk, ok := nd.(*ast.BlockStmt)
		if !ok || res != nil {
			return true
		}
		start := -1
		for i, st := range blk.List {
			if strings.HasPrefix(src(fc.fset, st), from) {
				start = i
				break
			}
		}
		if start < 0 {
			return true
		}
		for _, st := range blk.List[start:] {
			t := src(fc.fset, st)
			if strings.Contains(t, upTo) {
				break
			}
			if _, isComment := st.(*ast.EmptyStmt); isComment {
				continue
			}
			res = append(res, t)
		}
		return false
	})
	return res
}

// genShield: the guards and amounts of x/shield (and the claim admission in x/gov) that the Lean model of the module mirrors.
// Shentu/Props/ShieldTie.lean proves that each regenerated definition equals the expression used by the model.
func genShield(fc *fileCache) {
	g := &genFile{ns: "Shield"}
	pu := "x/shield/keeper/purchase.go"
	co := "x/shield/keeper/collateral.go"
	pr := "x/shield/keeper/provider.go"
	pp := "x/shield/keeper/proposal.go"
	po := "x/shield/keeper/pool.go"
	ms := "x/gov/keeper/msg_server.go"
	sp := "x/shield/keeper/staking_purchase.go"

	pv := map[string]Var{"totalShield": iv("totalShield"), "shieldAmt": iv("amt"), "totalCollateral": iv("totalCollateral"), "totalWithdrawing": iv("totalWithdrawing"),
		"totalClaimed": iv("totalClaimed"), "pool.Shield": iv("poolShield"), "maxShield": iv("maxShield"), "pool.ShieldLimit": iv("limit"),
		"poolParams.PoolShieldLimit": dv("fraction")}
	emitSite(fc, g, Site{Name: "oversold", File: pu, Func: "purchaseShield", Loc: ifCond("totalShield.Add(shieldAmt)", 0),
		Params: "(totalShield amt totalCollateral totalWithdrawing totalClaimed : Int)", Type: "Bool", Default: "false", Vars: pv})
	emitSite(fc, g, Site{Name: "poolExceeds", File: pu, Func: "purchaseShield", Loc: ifCond("maxShield", 0),
		Params: "(amt poolShield maxShield : Int)", Type: "Bool", Default: "false", Vars: pv})
	emitSite(fc, g, Site{Name: "freeFraction", File: pu, Func: "purchaseShield", Loc: callArg("sdk.MinInt", 0, 1),
		Params: "(totalCollateral totalWithdrawing totalClaimed : Int) (fraction : Dec)", Type: "Int", Default: "0", Vars: pv})

	dpv := map[string]Var{"provider.DelegationBonded": iv("bonded"), "provider.Collateral": iv("collateral"), "provider.Withdrawing": iv("withdrawing"), "amount": iv("amount"),
		"withdrawable": iv("withdrawable"), "stakedAmt": iv("staked")}
	emitSite(fc, g, Site{Name: "depositUnbacked", File: co, Func: "DepositCollateral", Loc: ifCond("DelegationBonded", 0),
		Params: "(bonded collateral amount withdrawing : Int)", Type: "Bool", Default: "false", Vars: dpv})
	emitSite(fc, g, Site{Name: "withdrawable", File: co, Func: "WithdrawCollateral", Loc: assignTo("withdrawable", 0),
		Params: "(collateral withdrawing : Int)", Type: "Int", Default: "0", Vars: dpv})
	emitSite(fc, g, Site{Name: "overWithdraw", File: co, Func: "WithdrawCollateral", Loc: ifCond("withdrawable", 0),
		Params: "(amount withdrawable : Int)", Type: "Bool", Default: "false", Vars: dpv})
	emitSite(fc, g, Site{Name: "shortfall", File: pr, Func: "updateProviderForDelegationChanges", Loc: assignTo("withdrawAmount", 0),
		Params: "(collateral withdrawing staked : Int)", Type: "Int", Default: "0", Vars: dpv})

	sv := map[string]Var{"lossAmt": iv("loss"), "pool.Shield": iv("poolShield"), "purchase.Shield": iv("purchaseShield"), "totalSecureAmt": iv("totalSecure"),
		"totalCollateral": iv("totalCollateral"), "provider.Collateral": iv("collateral"), "provider.Withdrawing": iv("withdrawing"),
		"provider.DelegationBonded": iv("bonded"), "amount": iv("amount")}
	emitSite(fc, g, Site{Name: "lossAbovePool", File: pp, Func: "SecureCollaterals", Loc: ifCond("pool.Shield", 0),
		Params: "(loss poolShield : Int)", Type: "Bool", Default: "false", Vars: sv})
	emitSite(fc, g, Site{Name: "lossAbovePurchase", File: pp, Func: "SecureCollaterals", Loc: ifCond("purchase.Shield", 0),
		Params: "(loss purchaseShield : Int)", Type: "Bool", Default: "false", Vars: sv})
	emitSite(fc, g, Site{Name: "secureExceeds", File: pp, Func: "SecureCollaterals", Loc: ifCond("totalSecureAmt", 0),
		Params: "(totalSecure totalCollateral : Int)", Type: "Bool", Default: "false", Vars: sv})
	emitSite(fc, g, Site{Name: "lenientCover", File: pp, Func: "SecureFromProvider", Loc: ifCond("DelegationBonded", 0),
		Params: "(collateral withdrawing amount bonded : Int)", Type: "Bool", Default: "false", Vars: sv})

	cv := map[string]Var{"initialDepositAmount": dv("deposit"), "lossAmountDec": dv("lossDec"), "depositRate": dv("rate"), "minDeposit": dv("minDeposit"),
		"purchase.Shield": iv("purchaseShield"), "lossAmount": iv("loss"), "purchase.ProtectionEndTime": iv("endTime"), "ctx.BlockTime()": iv("now")}
	emitSite(fc, g, Site{Name: "claimDepositShort", File: ms, Func: "validateProposalByType", Loc: ifCond("initialDepositAmount", 0),
		Params: "(deposit lossDec rate minDeposit : Dec)", Type: "Bool", Default: "false", Vars: cv})
	emitSite(fc, g, Site{Name: "claimShieldShort", File: ms, Func: "validateProposalByType", Loc: ifCond("purchase.Shield", 0),
		Params: "(purchaseShield loss : Int)", Type: "Bool", Default: "false", Vars: cv})
	emitSite(fc, g, Site{Name: "claimProtectionEnded", File: ms, Func: "validateProposalByType", Loc: ifCond("ProtectionEndTime", 0),
		Params: "(endTime now : Int)", Type: "Bool", Default: "false", Vars: cv})

	rv := map[string]Var{"reimbursement.PayoutTime": iv("payoutTime"), "ctx.BlockTime()": iv("now"), "sp.WithdrawRequested": iv("requested"), "amount": iv("amount"), "sp.Amount": iv("staked")}
	emitSite(fc, g, Site{Name: "notPayoutTime", File: pp, Func: "WithdrawReimbursement", Loc: ifCond("PayoutTime", 0),
		Params: "(payoutTime now : Int)", Type: "Bool", Default: "false", Vars: rv})
	emitSite(fc, g, Site{Name: "unstakeTooMuch", File: sp, Func: "UnstakeFromShield", Loc: ifCond("WithdrawRequested", 0),
		Params: "(requested amount staked : Int)", Type: "Bool", Default: "false", Vars: rv})

	// CreateReimbursement: the proportional split of an approved claim's loss over the providers — the two truncated shares, their caps by
	// what is still outstanding, the two "+1" corrections with their spare-collateral guards, and the final test that panics when the
	// payments do not add up.  A guard that is hoisted, reordered or rewritten changes the regenerated definition or is no longer
	// recognised (its leaves must be the site's parameters), and ShieldTie.tie_split_* / all_sites_found stop checking.
	rbv := map[string]Var{"provider.Collateral": iv("collateral"), "purchaseRatio": dv("purchaseRatio"), "payoutRatio": dv("payoutRatio"),
		"purchased": iv("purchased"), "payout": iv("payout"), "totalPurchased": iv("totalPurchased"), "totalPayout": iv("totalPayout"),
		"provider.Withdrawing": iv("withdrawing")}
	emitSite(fc, g, Site{Name: "splitPurchased", File: pp, Func: "CreateReimbursement", Loc: assignTo("purchased", 0),
		Params: "(collateral : Int) (purchaseRatio : Dec)", Type: "Int", Default: "0", Vars: rbv})
	emitSite(fc, g, Site{Name: "splitPayout", File: pp, Func: "CreateReimbursement", Loc: assignTo("payout", 0),
		Params: "(collateral : Int) (payoutRatio : Dec)", Type: "Int", Default: "0", Vars: rbv})
	emitSite(fc, g, Site{Name: "splitPurchasedCapped", File: pp, Func: "CreateReimbursement", Loc: ifCond("purchased.GT(totalPurchased)", 0),
		Params: "(purchased totalPurchased : Int)", Type: "Bool", Default: "false", Vars: rbv})
	emitSite(fc, g, Site{Name: "splitPayoutCapped", File: pp, Func: "CreateReimbursement", Loc: ifCond("payout.GT(totalPayout)", 0),
		Params: "(payout totalPayout : Int)", Type: "Bool", Default: "false", Vars: rbv})
	emitSite(fc, g, Site{Name: "splitPurchasedPlusOne", File: pp, Func: "CreateReimbursement", Loc: ifCond("purchased.LT(totalPurchased)", 0),
		Params: "(purchased totalPurchased collateral payout : Int)", Type: "Bool", Default: "false", Vars: rbv})
	emitSite(fc, g, Site{Name: "splitPayoutPlusOne", File: pp, Func: "CreateReimbursement", Loc: ifCond("payout.LT(totalPayout)", 0),
		Params: "(payout totalPayout collateral purchased : Int)", Type: "Bool", Default: "false", Vars: rbv})
	emitSite(fc, g, Site{Name: "splitDone", File: pp, Func: "CreateReimbursement", Loc: ifCond("totalPayout.IsPositive()", 0),
		Params: "(totalPayout : Int)", Type: "Bool", Default: "false", Vars: rbv})
	emitSite(fc, g, Site{Name: "splitShort", File: pp, Func: "CreateReimbursement", Loc: ifCond("totalPayout.IsPositive()", 1),
		Params: "(totalPayout : Int)", Type: "Bool", Default: "false", Vars: rbv})
	// the order of the statements between the two shares and the keeper calls, as source text: the "+1" of the purchased share is decided
	// before the "+1" of the payout and both read the CURRENT values of purchased and payout
	g.fact("splitSteps", "List String", strList(stmtSrcsBetween(fc, pp, "CreateReimbursement", "purchased := ", "k.UpdateProviderCollateralForPayout")), "x/shield/keeper/proposal.go CreateReimbursement: the statements from `purchased := …` up to the call of UpdateProviderCollateralForPayout")
	// UpdateProviderCollateralForPayout: the three-way split of a payment between free collateral and queued withdrawals
	emitSite(fc, g, Site{Name: "payoutFitsFree", File: pp, Func: "UpdateProviderCollateralForPayout", Loc: ifCond("GTE(purchased.Add(payout))", 0),
		Params: "(collateral withdrawing purchased payout : Int)", Type: "Bool", Default: "false", Vars: rbv})
	emitSite(fc, g, Site{Name: "purchasedFitsFree", File: pp, Func: "UpdateProviderCollateralForPayout", Loc: ifCond("GTE(purchased)", 0),
		Params: "(collateral withdrawing purchased : Int)", Type: "Bool", Default: "false", Vars: rbv})
	emitSite(fc, g, Site{Name: "payoutFromFreePartly", File: pp, Func: "UpdateProviderCollateralForPayout", Loc: assignTo("payoutFromCollateral", 2),
		Params: "(collateral withdrawing purchased : Int)", Type: "Int", Default: "0", Vars: rbv})
	emitSite(fc, g, Site{Name: "uncoveredPurchase", File: pp, Func: "UpdateProviderCollateralForPayout", Loc: assignTo("uncoveredPurchase", 1),
		Params: "(collateral withdrawing purchased : Int)", Type: "Int", Default: "0", Vars: rbv})

	clv := map[string]Var{"pool.Shield": iv("poolShield"), "pool.ShieldLimit": iv("limit")}
	emitSite(fc, g, Site{Name: "poolClosable", File: po, Func: "ClosePools", Loc: ifCond("ShieldLimit", 0),
		Params: "(poolShield limit : Int) (hasLists : Bool)", Type: "Bool", Default: "false",
		Vars: map[string]Var{"pool.Shield": iv("poolShield"), "pool.ShieldLimit": iv("limit"), "len(k.GetPoolPurchaseLists(ctx, pool.Id)) == 0": {"(!hasLists)", "bool"}}})
	_ = clv
	r, ok := ifBodyCalls(fc, po, "UpdatePool", "!serviceFees.Native.IsZero()", "k.bk.SendCoinsFromAccountToModule", 0)
	g.fact("feeOnlyCollects", "Bool", boolStr(r), "x/shield/keeper/pool.go UpdatePool: the fee-only branch moves the coins into the module account")
	g.fact("feeOnlyCollects_found", "Bool", boolStr(ok), "")
	g.found = append(g.found, "feeOnlyCollects_found")
	g.write("Shield", []string{"Shentu.Base.Dec"})
}
