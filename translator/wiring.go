package main

import (
	"go/ast"
	"strings"
)

// returnsCallTo: the function's only statement is `return <callee>(...)`.
func returnsCallTo(fc *fileCache, rel, fn, callee string) (bool, bool) {
	fd := fc.fn(rel, fn)
	if fd == nil {
		return false, false
	}
	if len(fd.Body.List) != 1 {
		return false, true
	}
	rs, ok := fd.Body.List[0].(*ast.ReturnStmt)
	if !ok || len(rs.Results) != 1 {
		return false, true
	}
	ce, ok := rs.Results[0].(*ast.CallExpr)
	if !ok {
		return false, true
	}
	return src(fc.fset, ce.Fun) == callee, true
}

// callArgs: the argument sources of the first call to callee anywhere in the function.
func callArgs(fc *fileCache, rel, fn, callee string) ([]string, bool) {
	fd := fc.fn(rel, fn)
	if fd == nil {
		return nil, false
	}
	var out []string
	found := false
	ast.Inspect(fd.Body, func(nd ast.Node) bool {
		if ce, ok := nd.(*ast.CallExpr); ok && !found && src(fc.fset, ce.Fun) == callee {
			found = true
			for _, a := range ce.Args {
				out = append(out, src(fc.fset, a))
			}
		}
		return true
	})
	return out, found
}

func indexOf(xs []string, x string) int {
	for i, y := range xs {
		if y == x {
			return i
		}
	}
	return -1
}

// genWiring: which end-blockers run, in which order, and that the staking wrapper hands over to the SDK (C09, C08).
func genWiring(fc *fileCache) {
	g := &genFile{ns: "Wiring"}
	r, ok := returnsCallTo(fc, "x/staking/module.go", "EndBlock", "am.cosmosAppModule.EndBlock")
	g.fact("stakingEndBlockDelegates", "Bool", boolStr(r), "x/staking/module.go EndBlock returns am.cosmosAppModule.EndBlock(...)")
	g.fact("stakingEndBlockDelegates_found", "Bool", boolStr(ok), "")
	g.found = append(g.found, "stakingEndBlockDelegates_found")
	args, ok := callArgs(fc, "app/app.go", "NewCertiKApp", "app.mm.SetOrderEndBlockers")
	g.fact("endBlockerOrder", "List String", strList(args), "app/app.go SetOrderEndBlockers("+strings.Join(args, ", ")+")")
	g.fact("endBlockerOrder_found", "Bool", boolStr(ok), "")
	g.found = append(g.found, "endBlockerOrder_found")
	st, sh, gv := indexOf(args, "stakingtypes.ModuleName"), indexOf(args, "shieldtypes.ModuleName"), indexOf(args, "sdkgovtypes.ModuleName")
	g.fact("stakingInEndBlockers", "Bool", boolStr(st >= 0), "")
	g.fact("shieldBeforeStaking", "Bool", boolStr(sh >= 0 && st >= 0 && sh < st), "shield's end-blocker reads unbonding entries that staking's deletes")
	g.fact("stakingBeforeGov", "Bool", boolStr(st >= 0 && gv >= 0 && st < gv), "the tally reads the validator set of this block")
	bargs, ok := callArgs(fc, "app/app.go", "NewCertiKApp", "app.mm.SetOrderBeginBlockers")
	g.fact("beginBlockerOrder", "List String", strList(bargs), "app/app.go SetOrderBeginBlockers")
	g.fact("beginBlockerOrder_found", "Bool", boolStr(ok), "")
	g.found = append(g.found, "beginBlockerOrder_found")
	// C19: the lock check of a VM call carrying value reads the spendable amount of the denomination the VM moves
	sp, ok := callArgs(fc, "x/cvm/keeper/keeper.go", "Tx", "k.bk.SpendableCoins(ctx, caller).AmountOf")
	g.fact("cvmSpendableDenom", "List String", strList(sp), "x/cvm/keeper/keeper.go Tx: k.bk.SpendableCoins(ctx, caller).AmountOf(…)")
	g.fact("cvmSpendableDenom_found", "Bool", boolStr(ok), "")
	g.found = append(g.found, "cvmSpendableDenom_found")
	// C02 / C11 / C09: every module account is a blocked recipient (the body of ModuleAccountAddrs, statement by statement)
	var body []string
	fd := fc.fn("app/app.go", "ModuleAccountAddrs")
	if fd != nil {
		for _, st := range fd.Body.List {
			body = append(body, strings.Join(strings.Fields(src(fc.fset, st)), " "))
		}
	}
	g.fact("moduleAccountAddrsBody", "List String", strList(body), "app/app.go ModuleAccountAddrs, one string per statement")
	g.fact("moduleAccountAddrs_found", "Bool", boolStr(fd != nil), "")
	g.found = append(g.found, "moduleAccountAddrs_found")
	g.write("Wiring", nil)
}
