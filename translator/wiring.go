package main

import (
	"go/ast"
	"strings"
)

// returnsCallTo: the function's only statement is `return <callee>(...)`.
func returnsCallTo(fc *fileCache, rel, fn, callee string) (bool, bool) {
	fd := fc.fn(rel, fn)
	if fd == nil {
		return false, false
	}
	if len(fd.Body.List) != 1 {
		return false, true
	}
	rs, ok := fd.Body.List[0].(*ast.ReturnStmt)
	if !ok || len(rs.Results) != 1 {
		return false, true
	}
	ce, ok := rs.Results[0].(*ast.CallExpr)
	if !ok {
		return false, true
	}
	return src(fc.fset, ce.Fun) == callee, true
}

// callArgs: the argument sources of the first call to callee anywhere in the function.
func callArgs(fc *fileCache, rel, fn, callee string) ([]string, bool) {
	fd := fc.fn(rel, fn)
	if fd == nil {
		return nil, false
	}
	var out []string
	found := false
	ast.Inspect(fd.Body, func(nd ast.Node) bool {
		if ce, ok := nd.(*ast.CallExpr); ok && !found && src(fc.fset, ce.Fun) == callee {
			found = true
			for _, a := range ce.Args {
				out = append(out, src(fc.fset, a))
			}
		}
		return true
	})
	return out, found
}

func indexOf(xs []string, x string) int {
	for i, y := range xs {
		if y == x {
			return i
		}
	}
	return -1
}

// genWiring: which end-blockers run, in which order, and that the staking wrapper hands over to the SDK (C09, C08).
func genWiring(fc *fileCache) {
	g := &genFile{ns: "Wiring"}
	r, ok := returnsCallTo(fc, "x/staking/module.go", "EndBlock", "am.cosmosAppModule.EndBlock")
	g.fact("stakingEndBlockDelegates", "Bool", boolStr(r), "x/staking/module.go EndBlock returns am.cosmosAppModule.EndBlock(...)")
	g.fact("stakingEndBlockDelegates_found", "Bool", boolStr(ok), "")
	g.found = append(g.found, "stakingEndBlockDelegates_found")
	args, ok := callArgs(fc, "app/app.go", "NewCertiKApp", "app.mm.SetOrderEndBlockers")
	g.fact("endBlockerOrder", "List String", strList(args), "app/app.go SetOrderEndBlockers("+strings.Join(args, ", ")+")")
	g.fact("endBlockerOrder_found", "Bool", boolStr(ok), "")
	g.found = append(g.found, "endBlockerOrder_found")
	st, sh, gv := indexOf(args, "stakingtypes.ModuleName"), indexOf(args, "shieldtypes.ModuleName"), indexOf(args, "sdkgovtypes.ModuleName")
	g.fact("stakingInEndBlockers", "Bool", boolStr(st >= 0), "")
	g.fact("shieldBeforeStaking", "Bool", boolStr(sh >= 0 && st >= 0 && sh < st), "shield's end-blocker reads unbonding entries that staking's deletes")
	g.fact("stakingBeforeGov", "Bool", boolStr(st >= 0 && gv >= 0 && st < gv), "the tally reads the validator set of this block")
	bargs, ok := callArgs(fc, "app/app.go", "NewCertiKApp", "app.mm.SetOrderBeginBlockers")
	g.fact("beginBlockerOrder", "List String", strList(bargs), "app/app.go SetOrderBeginBlockers")
	g.fact("beginBlockerOrder_found", "Bool", boolStr(ok), "")
	g.found = append(g.found, "beginBlockerOrder_found")
	// C19: the lock check of a VM call carrying value reads the spendable amount of the denomination the VM moves
	sp, ok := callArgs(fc, "x/cvm/keeper/keeper.go", "Tx", "k.bk.SpendableCoins(ctx, caller).AmountOf")
	g.fact("cvmSpendableDenom", "List String", strList(sp), "x/cvm/keeper/keeper.go Tx: k.bk.SpendableCoins(ctx, caller).AmountOf(…)")
	g.fact("cvmSpendableDenom_found", "Bool", boolStr(ok), "")
	g.found = append(g.found, "cvmSpendableDenom_found")
	// C02 / C11 / C09: every module account is a blocked recipient (the body of ModuleAccountAddrs, statement by statement)
	var body []string
	fd := fc.fn("app/app.go", "ModuleAccountAddrs")
	if fd != nil {
		for _, st := range fd.Body.List {
			body = append(body, strings.Join(strings.Fields(src(fc.fset, st)), " "))
		}
	}
	g.fact("moduleAccountAddrsBody", "List String", strList(body), "app/app.go ModuleAccountAddrs, one string per statement")
	g.fact("moduleAccountAddrs_found", "Bool", boolStr(fd != nil), "")
	g.found = append(g.found, "moduleAccountAddrs_found")
	// C09 / C08 / C20: every wrapper module hands each hook to the module it wraps (the staking wrapper's EndBlock once did not),
	// and the modules with begin/end-blockers of their own call them
	var handsOn []string
	for _, m := range []string{"auth", "bank", "distribution", "slashing", "staking"} {
		for _, hook := range []string{"InitGenesis", "ExportGenesis", "BeginBlock", "EndBlock"} {
			if delegatesTo(fc, "x/"+m+"/module.go", hook, "am.cosmosAppModule."+hook) {
				handsOn = append(handsOn, m+"."+hook)
			}
		}
	}
	g.fact("wrapperHandsOn", "List String", strList(handsOn), "x/<module>/module.go <hook>: its single statement calls am.cosmosAppModule.<hook>(…) with the same arguments")
	var own []string
	for _, c := range [][3]string{{"mint", "BeginBlock", "BeginBlocker"}, {"gov", "EndBlock", "EndBlocker"}, {"shield", "EndBlock", "EndBlocker"},
		{"oracle", "EndBlock", "EndBlocker"}, {"oracle", "BeginBlock", "BeginBlocker"}, {"cvm", "BeginBlock", "BeginBlocker"}, {"cvm", "EndBlock", "EndBlocker"}, {"shield", "BeginBlock", "BeginBlock"}, {"crisis", "EndBlock", "crisis.EndBlocker"}} {
		if callsFirst(fc, "x/"+c[0]+"/module.go", c[1], c[2]) {
			own = append(own, c[0]+"."+c[1])
		}
	}
	g.fact("ownBlockers", "List String", strList(own), "x/<module>/module.go <hook>: its first statement calls the module's own begin/end-blocker")
	g.write("Wiring", nil)
}

// delegatesTo: the method's single statement is `[return] callee(args…)` where the arguments are the method's own parameters in order.
func delegatesTo(fc *fileCache, rel, fn, callee string) bool {
	fd := fc.fn(rel, fn)
	if fd == nil || len(fd.Body.List) != 1 {
		return false
	}
	var ce *ast.CallExpr
	switch t := fd.Body.List[0].(type) {
	case *ast.ReturnStmt:
		if len(t.Results) == 1 {
			ce, _ = t.Results[0].(*ast.CallExpr)
		}
	case *ast.ExprStmt:
		ce, _ = t.X.(*ast.CallExpr)
	}
	if ce == nil || src(fc.fset, ce.Fun) != callee {
		return false
	}
	var params []string
	for _, f := range fd.Type.Params.List {
		for _, n := range f.Names {
			params = append(params, n.Name)
		}
	}
	if len(params) != len(ce.Args) {
		return false
	}
	for i, a := range ce.Args {
		if src(fc.fset, a) != params[i] {
			return false
		}
	}
	return true
}

// callsFirst: the method's first statement is a call whose callee's name ends with `name` (BeginBlocker(ctx, …), am.keeper.X…)
func callsFirst(fc *fileCache, rel, fn, name string) bool {
	fd := fc.fn(rel, fn)
	if fd == nil || len(fd.Body.List) == 0 {
		return false
	}
	es, ok := fd.Body.List[0].(*ast.ExprStmt)
	if !ok {
		if rs, ok2 := fd.Body.List[0].(*ast.ReturnStmt); ok2 && len(rs.Results) == 1 {
			if ce, ok3 := rs.Results[0].(*ast.CallExpr); ok3 {
				return strings.HasSuffix(src(fc.fset, ce.Fun), name)
			}
		}
		return false
	}
	ce, ok := es.X.(*ast.CallExpr)
	return ok && strings.HasSuffix(src(fc.fset, ce.Fun), name)
}
