package main

// genGas: the interpreter's gas schedule as Lean data.
//   vm/op_table.go  instructionSet  -> table : List OpInfo (opcode, name, static cost, dynamic rule, memory-size rule)
//   vm/gas.go       const block     -> numeric constants; var block -> what each gasXxx name stands for;
//                   gasSStore       -> the constants returned by its four cases, in source order
//   vm/memory.go    calcMemSize     -> which stack positions each memory-size rule reads
// The Lean model (Shentu/EVM/Impl.lean) takes every cost from this file.

import (
	"fmt"
	"go/ast"
	"go/token"
	"sort"
	"strconv"
	"strings"
)

// Burrow v0.31.0 execution/evm/asm numbering (= the standard EVM numbering)
var opByte = func() map[string]int {
	m := map[string]int{"STOP": 0x00, "ADD": 0x01, "MUL": 0x02, "SUB": 0x03, "DIV": 0x04, "SDIV": 0x05, "MOD": 0x06, "SMOD": 0x07,
		"ADDMOD": 0x08, "MULMOD": 0x09, "EXP": 0x0a, "SIGNEXTEND": 0x0b, "LT": 0x10, "GT": 0x11, "SLT": 0x12, "SGT": 0x13, "EQ": 0x14,
		"ISZERO": 0x15, "AND": 0x16, "OR": 0x17, "XOR": 0x18, "NOT": 0x19, "BYTE": 0x1a, "SHL": 0x1b, "SHR": 0x1c, "SAR": 0x1d, "SHA3": 0x20,
		"ADDRESS": 0x30, "BALANCE": 0x31, "ORIGIN": 0x32, "CALLER": 0x33, "CALLVALUE": 0x34, "CALLDATALOAD": 0x35, "CALLDATASIZE": 0x36,
		"CALLDATACOPY": 0x37, "CODESIZE": 0x38, "CODECOPY": 0x39, "GASPRICE_DEPRECATED": 0x3a, "EXTCODESIZE": 0x3b, "EXTCODECOPY": 0x3c,
		"RETURNDATASIZE": 0x3d, "RETURNDATACOPY": 0x3e, "EXTCODEHASH": 0x3f, "BLOCKHASH": 0x40, "COINBASE": 0x41, "TIMESTAMP": 0x42,
		"BLOCKHEIGHT": 0x43, "DIFFICULTY": 0x44, "GASLIMIT": 0x45, "CHAINID": 0x46, "POP": 0x50, "MLOAD": 0x51, "MSTORE": 0x52,
		"MSTORE8": 0x53, "SLOAD": 0x54, "SSTORE": 0x55, "JUMP": 0x56, "JUMPI": 0x57, "PC": 0x58, "MSIZE": 0x59, "GAS": 0x5a, "JUMPDEST": 0x5b,
		"LOG0": 0xa0, "LOG1": 0xa1, "LOG2": 0xa2, "LOG3": 0xa3, "LOG4": 0xa4, "CREATE": 0xf0, "CALL": 0xf1, "CALLCODE": 0xf2, "RETURN": 0xf3,
		"DELEGATECALL": 0xf4, "CREATE2": 0xf5, "STATICCALL": 0xfa, "REVERT": 0xfd, "INVALID": 0xfe, "SELFDESTRUCT": 0xff}
	for i := 1; i <= 32; i++ {
		m["PUSH"+strconv.Itoa(i)] = 0x60 + i - 1
	}
	for i := 1; i <= 16; i++ {
		m["DUP"+strconv.Itoa(i)] = 0x80 + i - 1
		m["SWAP"+strconv.Itoa(i)] = 0x90 + i - 1
	}
	return m
}()

// natTerm renders an integer expression over literals and constants of vm/gas.go as a Lean Nat term.
func natTerm(fc *fileCache, e ast.Expr, consts map[string]bool) (string, bool) {
	switch x := e.(type) {
	case *ast.BasicLit:
		if x.Kind == token.INT {
			return x.Value, true
		}
	case *ast.Ident:
		if consts[x.Name] {
			return x.Name, true
		}
	case *ast.ParenExpr:
		t, ok := natTerm(fc, x.X, consts)
		return "(" + t + ")", ok
	case *ast.BinaryExpr:
		a, ok1 := natTerm(fc, x.X, consts)
		b, ok2 := natTerm(fc, x.Y, consts)
		if ok1 && ok2 && (x.Op == token.ADD || x.Op == token.MUL) {
			return "(" + a + " " + x.Op.String() + " " + b + ")", true
		}
	}
	return "0", false
}

func genGas(fc *fileCache) {
	g := &genFile{ns: "Gas"}
	ok := true
	miss := func(what string) {
		ok = false
		g.lines = append(g.lines, "-- NOT FOUND: "+what)
	}
	g.lines = append(g.lines,
		"/-- how an instruction's dynamic cost is computed (vm/gas.go) -/",
		"inductive Dyn where",
		"  | none | memOnly | exp | sstore | call | callCode | selfdestruct",
		"  | memoryGas (add : Nat)                       -- onlyMemoryGas(add)",
		"  | copyGas (stackPos base perWord : Nat)       -- onlyCopyGas(stackPos, base, perWord); `base` is ignored by the source",
		"  | log (topics : Nat)                          -- makeGasLog(topics)",
		"  | unknown (name : String)",
		"  deriving Repr, DecidableEq, Inhabited",
		"",
		"/-- which stack entries give the memory size an instruction needs (vm/memory.go calcMemSize) -/",
		"inductive MemRule where",
		"  | none",
		"  | mem64 (off len : Nat)                       -- offset and length are stack positions",
		"  | memUint64 (off : Nat) (len : Nat)           -- offset is a stack position, length a constant",
		"  | mem64Comp (a b c d : Nat)",
		"  | unknown (name : String)",
		"  deriving Repr, DecidableEq, Inhabited",
		"",
		"structure OpInfo where",
		"  code : Nat",
		"  name : String",
		"  static : Nat",
		"  dyn : Dyn",
		"  mem : MemRule",
		"  deriving Repr, Inhabited",
		"")

	// ---- constants of vm/gas.go
	consts := map[string]bool{}
	gf := fc.get("vm/gas.go")
	type cdef struct{ name, val string }
	var cdefs []cdef
	if gf != nil {
		for _, d := range gf.Decls {
			gd, isGen := d.(*ast.GenDecl)
			if !isGen || gd.Tok != token.CONST {
				continue
			}
			for _, sp := range gd.Specs {
				vs := sp.(*ast.ValueSpec)
				for i, n := range vs.Names {
					if i < len(vs.Values) {
						if t, good := natTerm(fc, vs.Values[i], consts); good {
							consts[n.Name] = true
							cdefs = append(cdefs, cdef{n.Name, t})
						}
					}
				}
			}
		}
	}
	if len(cdefs) == 0 {
		miss("constants of vm/gas.go")
	}
	for _, c := range cdefs {
		g.lines = append(g.lines, fmt.Sprintf("def %s : Nat := %s", c.name, c.val))
	}
	g.lines = append(g.lines, "")

	// ---- var block of vm/gas.go: gasXxx = onlyCopyGas(...) | onlyMemoryGas(...) | onlyMemGasCost
	dynOf := map[string]string{"gasExp": "Dyn.exp", "gasSStore": "Dyn.sstore", "gasCall": "Dyn.call", "gasCallCode": "Dyn.callCode",
		"gasSelfdestruct": "Dyn.selfdestruct", "onlyMemGasCost": "Dyn.memOnly"}
	for name := range dynOf { // the named functions must exist
		if name != "onlyMemGasCost" && fc.fn("vm/gas.go", name) == nil {
			miss("func " + name)
		}
	}
	var dynTerm func(e ast.Expr) string
	dynTerm = func(e ast.Expr) string {
		switch x := e.(type) {
		case *ast.Ident:
			if t, has := dynOf[x.Name]; has {
				return t
			}
			return fmt.Sprintf("Dyn.unknown %q", x.Name)
		case *ast.CallExpr:
			fn := src(fc.fset, x.Fun)
			var args []string
			for _, a := range x.Args {
				t, good := natTerm(fc, a, consts)
				if !good {
					return fmt.Sprintf("Dyn.unknown %q", src(fc.fset, e))
				}
				args = append(args, t)
			}
			switch {
			case fn == "onlyCopyGas" && len(args) == 3:
				return "Dyn.copyGas " + strings.Join(args, " ")
			case fn == "onlyMemoryGas" && len(args) == 1:
				return "Dyn.memoryGas " + args[0]
			case fn == "makeGasLog" && len(args) == 1:
				return "Dyn.log " + args[0]
			}
		}
		return fmt.Sprintf("Dyn.unknown %q", src(fc.fset, e))
	}
	if gf != nil {
		for _, d := range gf.Decls {
			gd, isGen := d.(*ast.GenDecl)
			if !isGen || gd.Tok != token.VAR {
				continue
			}
			for _, sp := range gd.Specs {
				vs := sp.(*ast.ValueSpec)
				for i, n := range vs.Names {
					if i < len(vs.Values) && strings.HasPrefix(n.Name, "gas") {
						dynOf[n.Name] = dynTerm(vs.Values[i])
					}
				}
			}
		}
	}

	// ---- gasSStore: the constants returned by its cases, in source order
	var sst []string
	if fd := fc.fn("vm/gas.go", "gasSStore"); fd != nil {
		ast.Inspect(fd.Body, func(n ast.Node) bool {
			if rs, isRet := n.(*ast.ReturnStmt); isRet && len(rs.Results) == 2 {
				if t, good := natTerm(fc, rs.Results[0], consts); good {
					sst = append(sst, t)
				}
			}
			return true
		})
	}
	if len(sst) != 4 {
		miss("the four cases of gasSStore")
		sst = []string{"0", "0", "0", "0"}
	}
	g.lines = append(g.lines, "/-- vm/gas.go gasSStore: cost of (zero -> non-zero), (non-zero -> zero), (unchanged), (anything else), in source order -/",
		"def sstoreCosts : List Nat := ["+strings.Join(sst, ", ")+"]", "")
	// the refund added in the second case
	refund := "0"
	if fd := fc.fn("vm/gas.go", "gasSStore"); fd != nil {
		ast.Inspect(fd.Body, func(n ast.Node) bool {
			if as, isAs := n.(*ast.AssignStmt); isAs && as.Tok == token.ADD_ASSIGN && src(fc.fset, as.Lhs[0]) == "mem.refund" {
				if t, good := natTerm(fc, as.Rhs[0], consts); good {
					refund = t
				}
			}
			return true
		})
	}
	g.lines = append(g.lines, "def sstoreRefund : Nat := "+refund, "")
	// gasExp: per-byte and base constants (the two identifiers the body multiplies / adds)
	expOK := false
	if fd := fc.fn("vm/gas.go", "gasExp"); fd != nil {
		s := src(fc.fset, fd.Body)
		expOK = strings.Contains(s, "expByteLen * GasExpByte") && strings.Contains(s, "SafeAdd(gas, ExpGas)")
	}
	if !expOK {
		miss("gasExp: expByteLen * GasExpByte + ExpGas")
	}
	logOK := false
	if fd := fc.fn("vm/gas.go", "makeGasLog"); fd != nil {
		s := src(fc.fset, fd.Body)
		logOK = strings.Contains(s, "SafeAdd(gas, LogGas)") && strings.Contains(s, "n*LogTopicGas") && strings.Contains(s, "SafeMul(requestedSize, LogDataGas)")
	}
	if !logOK {
		miss("makeGasLog: LogGas + n*LogTopicGas + size*LogDataGas")
	}
	memOK := false
	if fd := fc.fn("vm/gas.go", "memGasCost"); fd != nil {
		s := src(fc.fset, fd.Body)
		memOK = strings.Contains(s, "newMemSizeWords * MemoryGas") && strings.Contains(s, "square / QuadCoeffDiv") && strings.Contains(s, "newMemSize > 0x1FFFFFFFE0")
	}
	if !memOK {
		miss("memGasCost: words*MemoryGas + words^2/QuadCoeffDiv, limit 0x1FFFFFFFE0")
	}

	// ---- the CREATE / CREATE2 case of vm/contract.go: the Burrow constant it charges and the facts the model's
	// CREATE relies on (recognised in the source text of the case clause)
	createGasName, createGasVal := "", "0"
	facts := map[string]bool{}
	if fd := fc.fn("vm/contract.go", "execute"); fd != nil {
		if cc := evmCaseMulti(fd, "CREATE", "CREATE2"); cc != nil {
			ast.Inspect(cc, func(n ast.Node) bool {
				if ce, isCall := n.(*ast.CallExpr); isCall && src(fc.fset, ce.Fun) == "engine.UseGasNegative" && len(ce.Args) == 2 &&
					src(fc.fset, ce.Args[0]) == "params.Gas" && createGasName == "" {
					if sel, isSel := ce.Args[1].(*ast.SelectorExpr); isSel && src(fc.fset, sel.X) == "engine" {
						createGasName = sel.Sel.Name
					}
				}
				return true
			})
			body := ""
			for _, st := range cc.Body {
				body += src(fc.fset, st) + " ; "
			}
			has := func(sub string) bool { return strings.Contains(body, sub) }
			// the constructor runs on the creator's own gas object, not on an allowance set aside
			facts["createSharesGas"] = has("Gas: params.Gas")
			// CREATE2 hashes the CREATOR's deployed code where the specification hashes the init code
			facts["create2HashesCreatorCode"] = has("code := engine.MustGetAccount(st.CallFrame, maybe, params.Callee).EVMCode") &&
				has("crypto.NewContractAddress2(params.Callee, salt, code)")
			// the constructor receives the init code as its call data too
			facts["createInputIsInitCode"] = has("Input: input") && has("c.Contract(input).Call(")
			// the sequence number is a field of the CVM shared by all frames, incremented before the address is derived
			facts["createSeqPerVm"] = has("c.sequence++") && strings.Index(body, "c.sequence++") < strings.Index(body, "crypto.NewContractAddress(params.Callee, nonce)")
			// a failed constructor is not pushed into the creator's error sink: 0 is pushed and the output kept as return data
			facts["createFailurePushesZero"] = has("if callErr != nil { stack.Push(Zero256)") && has("returnData = ret")
			// the new account is created in the child frame; a failure (address in use) goes into the creator's error sink
			facts["createCollisionIntoSink"] = has("maybe.PushError(engine.CreateAccount(childCallFrame, newAccountAddress))")
		}
	}
	if createGasName != "" {
		if bf := fc.getAbs(burrowFile("execution/engine/gas.go")); bf != nil {
			for _, d := range bf.Decls {
				gd, isGen := d.(*ast.GenDecl)
				if !isGen || gd.Tok != token.CONST {
					continue
				}
				for _, sp := range gd.Specs {
					vs := sp.(*ast.ValueSpec)
					for i, n := range vs.Names {
						if n.Name == createGasName && i < len(vs.Values) {
							if t, good := natTerm(fc, vs.Values[i], map[string]bool{}); good {
								createGasVal = t
								facts["createAccountGas"] = true
							}
						}
					}
				}
			}
		}
	}
	g.lines = append(g.lines, fmt.Sprintf("/-- vm/contract.go execute, case CREATE, CREATE2: `engine.UseGasNegative(params.Gas, engine.%s)`; the value is Burrow's (execution/engine/gas.go of the version in go.mod) -/", createGasName),
		"def GasCreateAccount : Nat := "+createGasVal)
	var factNames []string
	for _, n := range []string{"createAccountGas", "createSharesGas", "create2HashesCreatorCode", "createInputIsInitCode", "createSeqPerVm", "createFailurePushesZero", "createCollisionIntoSink"} {
		g.lines = append(g.lines, fmt.Sprintf("def %s_found : Bool := %v", n, facts[n]))
		factNames = append(factNames, n+"_found")
	}
	g.lines = append(g.lines, "")
	g.found = append(g.found, factNames...)

	// ---- calcMemSize (vm/memory.go)
	memRule := map[string]string{}
	if fd := fc.fn("vm/memory.go", "calcMemSize"); fd != nil {
		ast.Inspect(fd.Body, func(n ast.Node) bool {
			cc, isCC := n.(*ast.CaseClause)
			if !isCC || len(cc.Body) != 1 {
				return true
			}
			rs, isRet := cc.Body[0].(*ast.ReturnStmt)
			if !isRet || len(rs.Results) != 1 {
				return true
			}
			ce, isCall := rs.Results[0].(*ast.CallExpr)
			if !isCall {
				return true
			}
			var args []string
			for _, a := range ce.Args {
				if bl, isLit := a.(*ast.BasicLit); isLit {
					args = append(args, bl.Value)
				}
			}
			fn := src(fc.fset, ce.Fun)
			term := ""
			switch {
			case fn == "mem64" && len(args) == 2:
				term = "MemRule.mem64 " + strings.Join(args, " ")
			case fn == "memUint64" && len(args) == 2:
				term = "MemRule.memUint64 " + strings.Join(args, " ")
			case fn == "mem64Comp" && len(args) == 4:
				term = "MemRule.mem64Comp " + strings.Join(args, " ")
			default:
				term = fmt.Sprintf("MemRule.unknown %q", fn)
			}
			for _, l := range cc.List {
				memRule[src(fc.fset, l)] = term
			}
			return true
		})
	}
	if len(memRule) == 0 {
		miss("calcMemSize cases")
	}

	// ---- the instruction table
	type row struct {
		code                   int
		name, static, dyn, mem string
	}
	var rows []row
	tf := fc.get("vm/op_table.go")
	if tf != nil {
		ast.Inspect(tf, func(n ast.Node) bool {
			vs, isVS := n.(*ast.ValueSpec)
			if !isVS || len(vs.Names) != 1 || vs.Names[0].Name != "instructionSet" || len(vs.Values) != 1 {
				return true
			}
			cl, isCL := vs.Values[0].(*ast.CompositeLit)
			if !isCL {
				return true
			}
			for _, el := range cl.Elts {
				kv, isKV := el.(*ast.KeyValueExpr)
				if !isKV {
					continue
				}
				name := src(fc.fset, kv.Key)
				code, known := opByte[name]
				if !known {
					miss("opcode name " + name)
					continue
				}
				r := row{code: code, name: name, static: "0", dyn: "Dyn.none", mem: "MemRule.none"}
				if body, isBody := kv.Value.(*ast.CompositeLit); isBody {
					for _, f := range body.Elts {
						fkv, isF := f.(*ast.KeyValueExpr)
						if !isF {
							continue
						}
						switch src(fc.fset, fkv.Key) {
						case "staticGas":
							t, good := natTerm(fc, fkv.Value, consts)
							if !good {
								miss("static gas of " + name)
							}
							r.static = t
						case "dynamicGas":
							if id, isID := fkv.Value.(*ast.Ident); isID {
								if t, has := dynOf[id.Name]; has {
									r.dyn = t
								} else {
									r.dyn = fmt.Sprintf("Dyn.unknown %q", id.Name)
								}
							} else {
								r.dyn = dynTerm(fkv.Value)
							}
						case "memSize":
							if t, has := memRule[src(fc.fset, fkv.Value)]; has {
								r.mem = t
							} else {
								r.mem = fmt.Sprintf("MemRule.unknown %q", src(fc.fset, fkv.Value))
							}
						}
					}
				}
				if strings.Contains(r.dyn, "unknown") || strings.Contains(r.mem, "unknown") {
					miss("dynamic rule of " + name)
				}
				rows = append(rows, r)
			}
			return false
		})
	}
	if len(rows) == 0 {
		miss("instructionSet")
	}
	sort.Slice(rows, func(i, j int) bool { return rows[i].code < rows[j].code })
	g.lines = append(g.lines, "/-- vm/op_table.go instructionSet; opcodes that are absent here have static cost 0 and no dynamic rule -/",
		"def table : List OpInfo := [")
	for i, r := range rows {
		sep := ","
		if i == len(rows)-1 {
			sep = ""
		}
		g.lines = append(g.lines, fmt.Sprintf("  ⟨0x%02x, %q, %s, %s, %s⟩%s", r.code, r.name, r.static, paren(r.dyn), paren(r.mem), sep))
	}
	g.lines = append(g.lines, "]", "")
	g.lines = append(g.lines, fmt.Sprintf("def gas_found : Bool := %v", ok), "")
	g.found = append(g.found, "gas_found")
	g.write("Gas", nil)
}

func paren(s string) string {
	if strings.Contains(s, " ") {
		return "(" + s + ")"
	}
	return s
}

// evmCaseMulti finds `case A, B:` in the `switch op` of execute.
func evmCaseMulti(fd *ast.FuncDecl, names ...string) *ast.CaseClause {
	var found *ast.CaseClause
	ast.Inspect(fd.Body, func(n ast.Node) bool {
		sw, ok := n.(*ast.SwitchStmt)
		if !ok || fmt.Sprint(sw.Tag) != "op" {
			return true
		}
		for _, c := range sw.Body.List {
			cc := c.(*ast.CaseClause)
			if len(cc.List) != len(names) || found != nil {
				continue
			}
			same := true
			for i, nm := range names {
				if fmt.Sprint(cc.List[i]) != nm {
					same = false
				}
			}
			if same {
				found = cc
			}
		}
		return false
	})
	return found
}
