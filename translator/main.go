// translator reads /repo's current source and writes lean/Shentu/Gen/*.lean:
// guards, arithmetic expressions, constants, byte orders, case lists and wiring
// facts that the Lean models consume.  It is deliberately syntactic (go/ast only).
package main

import (
	"flag"
	"fmt"
	"go/ast"
	"go/parser"
	"go/token"
	"os"
	"path/filepath"
	"regexp"
	"sort"
	"strings"
)

var repo = flag.String("repo", "/repo", "repository root")
var outDir = flag.String("out", "/verif/lean/Shentu/Gen", "output directory")

type fileCache struct {
	fset  *token.FileSet
	files map[string]*ast.File
}

func (fc *fileCache) get(rel string) *ast.File {
	if f, ok := fc.files[rel]; ok {
		return f
	}
	f, err := parser.ParseFile(fc.fset, filepath.Join(*repo, rel), nil, parser.ParseComments)
	if err != nil {
		fc.files[rel] = nil
		return nil
	}
	fc.files[rel] = f
	return f
}

// getAbs parses a file outside the repository (a dependency in the module cache).
func (fc *fileCache) getAbs(abs string) *ast.File {
	if abs == "" {
		return nil
	}
	if f, ok := fc.files[abs]; ok {
		return f
	}
	f, err := parser.ParseFile(fc.fset, abs, nil, parser.ParseComments)
	if err != nil {
		fc.files[abs] = nil
		return nil
	}
	fc.files[abs] = f
	return f
}

// burrowFile locates a file of the Burrow version required by the repository's go.mod in the module cache.
func burrowFile(rel string) string {
	mod, err := os.ReadFile(filepath.Join(*repo, "go.mod"))
	if err != nil {
		return ""
	}
	m := regexp.MustCompile(`(?m)^\s*github.com/hyperledger/burrow\s+(v\S+)`).FindSubmatch(mod)
	if m == nil {
		return ""
	}
	cache := os.Getenv("GOMODCACHE")
	if cache == "" {
		gp := os.Getenv("GOPATH")
		if gp == "" {
			home, _ := os.UserHomeDir()
			gp = filepath.Join(home, "go")
		}
		cache = filepath.Join(gp, "pkg", "mod")
	}
	return filepath.Join(cache, "github.com/hyperledger/burrow@"+string(m[1]), rel)
}

func (fc *fileCache) fn(rel, name string) *ast.FuncDecl {
	f := fc.get(rel)
	if f == nil {
		return nil
	}
	for _, d := range f.Decls {
		if fd, ok := d.(*ast.FuncDecl); ok && fd.Name.Name == name && fd.Body != nil {
			return fd
		}
	}
	return nil
}

// ---------------------------------------------------------------- locators

type locator func(fc *fileCache, fd *ast.FuncDecl) ast.Expr

// ifCond: the n-th (0-based) if-condition in the function whose source contains sub.
func ifCond(sub string, n int) locator {
	return func(fc *fileCache, fd *ast.FuncDecl) ast.Expr {
		var found ast.Expr
		i := 0
		ast.Inspect(fd.Body, func(nd ast.Node) bool {
			if is, ok := nd.(*ast.IfStmt); ok && found == nil {
				if strings.Contains(src(fc.fset, is.Cond), sub) {
					if i == n {
						found = is.Cond
					}
					i++
				}
			}
			return true
		})
		return found
	}
}

// assignTo: right-hand side of the n-th assignment / definition of lhs.
func assignTo(lhs string, n int) locator {
	return func(fc *fileCache, fd *ast.FuncDecl) ast.Expr {
		var found ast.Expr
		i := 0
		ast.Inspect(fd.Body, func(nd ast.Node) bool {
			if as, ok := nd.(*ast.AssignStmt); ok && found == nil && len(as.Lhs) == 1 && len(as.Rhs) == 1 {
				if src(fc.fset, as.Lhs[0]) == lhs {
					if i == n {
						found = as.Rhs[0]
					}
					i++
				}
			}
			return true
		})
		return found
	}
}

// callArg: argument k of the n-th call whose callee source equals callee.
func callArg(callee string, n, k int) locator {
	return func(fc *fileCache, fd *ast.FuncDecl) ast.Expr {
		var found ast.Expr
		i := 0
		ast.Inspect(fd.Body, func(nd ast.Node) bool {
			if ce, ok := nd.(*ast.CallExpr); ok && found == nil && src(fc.fset, ce.Fun) == callee && len(ce.Args) > k {
				if i == n {
					found = ce.Args[k]
				}
				i++
			}
			return true
		})
		return found
	}
}

// ---------------------------------------------------------------- sites

type Site struct {
	Name    string // Lean def name
	File    string
	Func    string
	Loc     locator
	Params  string // Lean binder list, e.g. "(due h : Int)"
	Type    string // Lean result type
	Default string // Lean term used when the site is not found (keeps the project compiling)
	Vars    map[string]Var
}

var identRe = regexp.MustCompile(`^[A-Za-z_][A-Za-z0-9_']*$`)

// generated global constants that site bodies may mention
var globals = map[string]bool{"minScore": true, "maxScore": true, "amplifier": true}

type genFile struct {
	ns    string
	lines []string
	found []string
}

func iv(l string) Var { return Var{l, "int"} }
func dv(l string) Var { return Var{l, "dec"} }

func emitSite(fc *fileCache, g *genFile, s Site) {
	fd := fc.fn(s.File, s.Func)
	var e ast.Expr
	if fd != nil {
		e = s.Loc(fc, fd)
	}
	ok := false
	body := s.Default
	where := s.File + " " + s.Func + ": not found"
	if e != nil {
		term, _, used, err := translateUsed(fc.fset, e, s.Vars)
		pos := fc.fset.Position(e.Pos())
		if err == nil {
			// every leaf must be a parameter of the site (or a generated global constant)
			for _, u := range used {
				if !identRe.MatchString(u) || globals[u] {
					continue
				}
				if !regexp.MustCompile(`\b` + regexp.QuoteMeta(u) + `\b`).MatchString(s.Params) {
					err = xerr{"uses " + u + ", which is not a parameter of this site"}
				}
			}
		}
		if err == nil {
			ok = true
			body = term
			where = fmt.Sprintf("%s:%d %s: `%s`", s.File, pos.Line, s.Func, src(fc.fset, e))
		} else {
			where = fmt.Sprintf("%s:%d %s: %v", s.File, pos.Line, s.Func, err)
		}
	}
	g.lines = append(g.lines, fmt.Sprintf("/-- %s -/", strings.ReplaceAll(where, "-/", "- /")))
	g.lines = append(g.lines, fmt.Sprintf("def %s %s : %s := %s", s.Name, s.Params, s.Type, body))
	g.lines = append(g.lines, fmt.Sprintf("def %s_found : Bool := %v", s.Name, ok))
	g.lines = append(g.lines, "")
	g.found = append(g.found, s.Name+"_found")
}

func (g *genFile) fact(name, typ, val, where string) {
	g.lines = append(g.lines, fmt.Sprintf("/-- %s -/", where))
	g.lines = append(g.lines, fmt.Sprintf("def %s : %s := %s", name, typ, val))
	g.lines = append(g.lines, "")
}

func (g *genFile) write(name string, imports []string) {
	var b strings.Builder
	b.WriteString("-- GENERATED by /verif/translator from /repo's working tree. Do not edit.\n")
	for _, i := range imports {
		b.WriteString("import " + i + "\n")
	}
	b.WriteString("namespace Shentu.Gen." + g.ns + "\nopen Shentu\n\n")
	b.WriteString(strings.Join(g.lines, "\n"))
	b.WriteString("\n/-- every extraction site of this file was recognised in the source -/\n")
	if len(g.found) == 0 {
		b.WriteString("def allFound : Bool := true\n")
	} else {
		b.WriteString("def allFound : Bool := " + strings.Join(g.found, " && ") + "\n")
	}
	b.WriteString("\nend Shentu.Gen." + g.ns + "\n")
	p := filepath.Join(*outDir, name+".lean")
	old, _ := os.ReadFile(p)
	if string(old) != b.String() { // keep mtime when unchanged so lake does not rebuild
		if err := os.WriteFile(p, []byte(b.String()), 0644); err != nil {
			panic(err)
		}
	}
}

// byteOrder reports "little" / "big" / "unknown" for the binary.*Endian used in a function.
func byteOrder(fc *fileCache, rel, fn string) string {
	fd := fc.fn(rel, fn)
	if fd == nil {
		return "unknown"
	}
	s := src(fc.fset, fd.Body)
	le := strings.Contains(s, "binary.LittleEndian")
	be := strings.Contains(s, "binary.BigEndian")
	switch {
	case le && !be:
		return "little"
	case be && !le:
		return "big"
	}
	return "unknown"
}

// intConst finds `name = sdk.NewInt(n)` / `name = int64(n)` / `name = n` among package-level vars/consts.
func intConst(fc *fileCache, rel, name string) (string, bool) {
	f := fc.get(rel)
	if f == nil {
		return "0", false
	}
	for _, d := range f.Decls {
		gd, ok := d.(*ast.GenDecl)
		if !ok {
			continue
		}
		for _, sp := range gd.Specs {
			vs, ok := sp.(*ast.ValueSpec)
			if !ok {
				continue
			}
			for i, n := range vs.Names {
				if n.Name == name && i < len(vs.Values) {
					t, _, err := translate(fc.fset, vs.Values[i], map[string]Var{})
					if err == nil {
						return t, true
					}
				}
			}
		}
	}
	return "0", false
}

func strList(xs []string) string {
	var q []string
	for _, x := range xs {
		q = append(q, fmt.Sprintf("%q", x))
	}
	return "[" + strings.Join(q, ", ") + "]"
}

func main() {
	flag.Parse()
	os.MkdirAll(*outDir, 0755)
	fc := &fileCache{fset: token.NewFileSet(), files: map[string]*ast.File{}}
	genOracle(fc)
	genGov(fc)
	genEVM(fc)
	genGas(fc)
	genWiring(fc)
	genShield(fc)
	genMint(fc)
	genVesting(fc)
	genCvmGas(fc)
	genDeterminism(*repo)
	var names []string
	for k := range fc.files {
		names = append(names, k)
	}
	sort.Strings(names)
	fmt.Println("translator: read", len(names), "files")
}
