package main

// EVM arithmetic core (C16): every listed `case OP:` of the big `switch op` in
// vm/contract.go `execute` is symbolically executed over a symbolic stack and
// rewritten into a Lean term over the primitives of lean/Shentu/Arith/BigOps.lean
// (math/big, Burrow's binary package and Stack).  Popped words become the
// parameters w0 w1 .. (pop order); the result is the word on top of the stack
// when the case ends.  A fallible primitive (Div/Mod/Quo/Rem panic on zero,
// Pop64 overflow, array index) turns the result type into `Option Nat`.

import (
	"fmt"
	"go/ast"
	"go/token"
	"os"
	"path/filepath"
	"regexp"
	"strconv"
	"strings"
)

// opcode -> number of words it takes from the stack (Yellow Paper δ); every one pushes one word
var evmOps = []struct {
	name  string
	arity int
}{{"ADD", 2}, {"MUL", 2}, {"SUB", 2}, {"DIV", 2}, {"SDIV", 2}, {"MOD", 2}, {"SMOD", 2}, {"ADDMOD", 3}, {"MULMOD", 3},
	{"EXP", 2}, {"SIGNEXTEND", 2}, {"LT", 2}, {"GT", 2}, {"SLT", 2}, {"SGT", 2}, {"EQ", 2}, {"ISZERO", 1}, {"AND", 2},
	{"OR", 2}, {"XOR", 2}, {"NOT", 1}, {"BYTE", 2}, {"SHL", 2}, {"SHR", 2}, {"SAR", 2}}

// constants of Burrow's binary package (pinned dependency v0.31.0)
var evmConsts = map[string]ev{"Zero256": {"0", "word"}, "One256": {"1", "word"}, "Big256": {"(256 : Int)", "big"},
	"Word256Bytes": {"32", "const"}, "Word256Bits": {"256", "const"}}

// ev: a translated expression.  kind: big (Int) | word | u64 | int (Go int, Lean Int) | const (folded untyped
// constant) | bool (Lean Prop);  a leading '?' marks a fallible primitive (Lean `Option`).
type ev struct{ term, kind string }

type evState struct {
	pops   int               // words popped so far on this path
	pushed string            // Lean term of the pushed word ("" = nothing pushed yet)
	vars   map[string]string // Go variable -> kind
}

func (s evState) clone() evState {
	v := map[string]string{}
	for k, x := range s.vars {
		v[k] = x
	}
	return evState{s.pops, s.pushed, v}
}

type evmTx struct {
	fset     *token.FileSet
	opt      bool // emit `Option Nat`
	fallible bool // a fallible primitive was met
	arity    int
	byteVars []string // inside a byte-wise loop: the indexed words, in order of first use
	loopVar  string
	file     *ast.File // vm/contract.go, for package-level big.Int variables
	dir      string    // its directory (the package)
}

// pkgBig resolves a package-level `var name = <big.Int expression>` of contract.go to the Lean term of its
// initialiser, provided nothing in the package writes to the variable (no `name.M(..)`, `name = ..`, `&name`).
func (t *evmTx) pkgBig(name string) (ev, bool) {
	for _, d := range t.file.Decls {
		gd, ok := d.(*ast.GenDecl)
		if !ok || gd.Tok != token.VAR {
			continue
		}
		for _, sp := range gd.Specs {
			vs := sp.(*ast.ValueSpec)
			if len(vs.Names) != 1 || len(vs.Values) != 1 || vs.Names[0].Name != name {
				continue
			}
			files, _ := filepath.Glob(filepath.Join(t.dir, "*.go"))
			written := regexp.MustCompile(`(&|\b)` + name + `\s*(\.|=[^=]|\+\+|--|[-+*/%&|^]=)`)
			for _, f := range files {
				b, _ := os.ReadFile(f)
				if n := len(written.FindAll(b, -1)); n > 1 || (n == 1 && !strings.HasSuffix(f, "contract.go")) {
					return ev{}, false // more than the declaration itself
				}
			}
			if strings.Contains(src(t.fset, vs.Values[0]), "stack.") {
				return ev{}, false
			}
			v, _, _ := t.expr(vs.Values[0], &evState{vars: map[string]string{}})
			return v, v.kind == "big"
		}
	}
	return ev{}, false
}

func (t *evmTx) fail(n ast.Node, why string) {
	panic(xerr{fmt.Sprintf("%s: `%s`", why, src(t.fset, n))})
}

func (t *evmTx) pure(n ast.Node, v ev) ev {
	if strings.HasPrefix(v.kind, "?") {
		t.fail(n, "fallible primitive nested inside an expression")
	}
	return v
}

// expr translates e; mut is the name of a big.Int variable that the call overwrites with its result
// (`add.Mod(add, z)`), push reports a stack push.
func (t *evmTx) expr(e ast.Expr, s *evState) (v ev, mut string, push bool) {
	arg := func(a ast.Expr, kinds ...string) string {
		x, _, _ := t.expr(a, s)
		t.pure(a, x)
		for _, k := range kinds {
			if x.kind == k {
				return x.term
			}
		}
		t.fail(a, "expected "+strings.Join(kinds, "/")+", got "+x.kind)
		return ""
	}
	switch x := e.(type) {
	case *ast.ParenExpr:
		return t.expr(x.X, s)
	case *ast.Ident:
		if k, ok := s.vars[x.Name]; ok {
			return ev{x.Name, k}, "", false
		}
		if c, ok := evmConsts[x.Name]; ok {
			return c, "", false
		}
		if v, ok := t.pkgBig(x.Name); ok {
			return v, "", false
		}
	case *ast.BasicLit:
		if x.Kind == token.INT {
			if n, err := strconv.ParseInt(x.Value, 0, 64); err == nil {
				return ev{fmt.Sprint(n), "const"}, "", false
			}
		}
	case *ast.CompositeLit: // [32]byte{}
		if src(t.fset, x) == "[32]byte{}" {
			return ev{"0", "word"}, "", false
		}
	case *ast.SliceExpr: // x[:]
		if x.Low == nil && x.High == nil {
			return ev{arg(x.X, "word"), "word"}, "", false
		}
	case *ast.IndexExpr:
		if id, ok := x.Index.(*ast.Ident); ok && t.loopVar != "" && id.Name == t.loopVar { // x[i] inside a byte-wise loop
			w := arg(x.X, "word")
			for i, b := range t.byteVars {
				if b == w {
					return ev{fmt.Sprintf("b%d", i), "byte"}, "", false
				}
			}
			t.byteVars = append(t.byteVars, w)
			return ev{fmt.Sprintf("b%d", len(t.byteVars)-1), "byte"}, "", false
		}
		t.fallible = true
		return ev{"wordByte " + arg(x.X, "word") + " " + arg(x.Index, "u64", "const"), "?u64"}, "", false
	case *ast.UnaryExpr:
		a, _, _ := t.expr(x.X, s)
		t.pure(x.X, a)
		switch {
		case x.Op == token.SUB && a.kind == "const":
			return ev{"-" + a.term, "const"}, "", false
		case x.Op == token.NOT && a.kind == "bool":
			return ev{"(¬ " + a.term + ")", "bool"}, "", false
		case x.Op == token.XOR && a.kind == "byte":
			return ev{"(byteNot " + a.term + ")", "byte"}, "", false
		}
	case *ast.BinaryExpr:
		a, _, _ := t.expr(x.X, s)
		b, _, _ := t.expr(x.Y, s)
		t.pure(x.X, a)
		t.pure(x.Y, b)
		num := func(k string) bool { return k == "u64" || k == "const" || k == "int" }
		switch x.Op {
		case token.ADD, token.SUB, token.MUL:
			if a.kind == "const" && b.kind == "const" { // constant folding, as the Go compiler does
				m, _ := strconv.ParseInt(a.term, 10, 64)
				n, _ := strconv.ParseInt(b.term, 10, 64)
				r := map[token.Token]int64{token.ADD: m + n, token.SUB: m - n, token.MUL: m * n}[x.Op]
				return ev{fmt.Sprint(r), "const"}, "", false
			}
			if x.Op != token.SUB && (a.kind == "u64" || b.kind == "u64") && num(a.kind) && num(b.kind) && a.kind != "int" && b.kind != "int" {
				return ev{"(u64 (" + a.term + " " + x.Op.String() + " " + b.term + "))", "u64"}, "", false
			}
		case token.AND, token.OR, token.XOR:
			if a.kind == "byte" && b.kind == "byte" {
				op := map[token.Token]string{token.AND: "&&&", token.OR: "|||", token.XOR: "^^^"}[x.Op]
				return ev{"(" + a.term + " " + op + " " + b.term + ")", "byte"}, "", false
			}
		case token.LSS, token.LEQ, token.GTR, token.GEQ, token.EQL, token.NEQ:
			ints := (a.kind == "int" || a.kind == "const") && (b.kind == "int" || b.kind == "const") // Go int (Sign, Cmp)
			nats := (a.kind == "u64" || a.kind == "const") && (b.kind == "u64" || b.kind == "const") // unsigned machine integers
			if ints || nats {
				op := map[token.Token]string{token.LSS: "<", token.LEQ: "≤", token.GTR: ">", token.GEQ: "≥", token.EQL: "=", token.NEQ: "≠"}[x.Op]
				return ev{"(" + a.term + " " + op + " " + b.term + ")", "bool"}, "", false
			}
		case token.LAND, token.LOR:
			if a.kind == "bool" && b.kind == "bool" {
				op := map[token.Token]string{token.LAND: "∧", token.LOR: "∨"}[x.Op]
				return ev{"(" + a.term + " " + op + " " + b.term + ")", "bool"}, "", false
			}
		}
	case *ast.CallExpr:
		fn := src(t.fset, x.Fun)
		pop := func() string { s.pops++; return fmt.Sprintf("w%d", s.pops-1) }
		n := len(x.Args)
		switch {
		case fn == "stack.Pop" && n == 0:
			return ev{pop(), "word"}, "", false
		case fn == "stack.PopBigInt" && n == 0:
			return ev{"(bigOfWord " + pop() + ")", "big"}, "", false
		case fn == "stack.PopBigIntSigned" && n == 0:
			return ev{"(bigOfWordSigned " + pop() + ")", "big"}, "", false
		case fn == "stack.Pop64" && n == 0:
			t.fallible = true
			return ev{"pop64 " + pop(), "?u64"}, "", false
		case fn == "stack.Push" && n == 1:
			return ev{arg(x.Args[0], "word"), "word"}, "", true
		case fn == "stack.PushBigInt" && n == 1:
			return ev{"(pushBigInt " + arg(x.Args[0], "big") + ")", "word"}, "", true
		case fn == "stack.Push64" && n == 1:
			return ev{"(push64 " + arg(x.Args[0], "u64", "const") + ")", "word"}, "", true
		case fn == "bytes.Equal" && n == 2:
			return ev{"(wordEq " + arg(x.Args[0], "word") + " " + arg(x.Args[1], "word") + " = true)", "bool"}, "", false
		case fn == "big.NewInt" && n == 1:
			return ev{"(" + arg(x.Args[0], "const") + " : Int)", "big"}, "", false
		case fn == "SignExtend" && n == 2:
			return ev{"(signExtend " + arg(x.Args[0], "big") + " " + arg(x.Args[1], "u64", "const") + ")", "big"}, "", false
		case (fn == "uint" || fn == "uint64") && n == 1: // widening / same-width conversions of unsigned values
			return ev{arg(x.Args[0], "u64"), "u64"}, "", false
		case fn == "byte" && n == 1:
			if c := arg(x.Args[0], "const"); len(c) <= 2 && c[0] != '-' {
				return ev{c, "u64"}, "", false
			}
		}
		sel, ok := x.Fun.(*ast.SelectorExpr)
		if !ok {
			break
		}
		m := sel.Sel.Name
		var recv ev
		if src(t.fset, sel.X) != "new(big.Int)" {
			recv, _, _ = t.expr(sel.X, s)
			t.pure(sel.X, recv)
			if id, ok := sel.X.(*ast.Ident); ok && recv.kind == "big" {
				mut = id.Name
			}
		} else {
			recv = ev{"", "big"}
		}
		if recv.kind == "word" && m == "IsZero" && n == 0 {
			return ev{"(wordIsZero " + recv.term + " = true)", "bool"}, "", false
		}
		if recv.kind != "big" {
			break
		}
		big2 := func() (string, string) { return arg(x.Args[0], "big"), arg(x.Args[1], "big") }
		switch {
		case (m == "Add" || m == "Sub" || m == "Mul") && n == 2:
			a, b := big2()
			return ev{"(" + a + " " + map[string]string{"Add": "+", "Sub": "-", "Mul": "*"}[m] + " " + b + ")", "big"}, mut, false
		case (m == "Div" || m == "Mod" || m == "Quo" || m == "Rem") && n == 2:
			a, b := big2()
			t.fallible = true
			return ev{"big" + m + " " + a + " " + b, "?big"}, mut, false
		case m == "Exp" && n == 3 && src(t.fset, x.Args[2]) == "nil":
			a, b := big2()
			return ev{"(bigExp " + a + " " + b + ")", "big"}, mut, false
		case m == "Exp" && n == 3: // modular; a negative exponent (modular inverse) is outside the model: `none`
			a, b := big2()
			t.fallible = true
			return ev{"bigExpMod " + a + " " + b + " " + arg(x.Args[2], "big"), "?big"}, mut, false
		case m == "IsUint64" && n == 0 && recv.term != "":
			return ev{"(bigIsUint64 " + recv.term + " = true)", "bool"}, "", false
		case (m == "Lsh" || m == "Rsh") && n == 2:
			return ev{"(big" + m + " " + arg(x.Args[0], "big") + " " + arg(x.Args[1], "u64", "const") + ")", "big"}, mut, false
		case m == "SetInt64" && n == 1:
			return ev{"(" + arg(x.Args[0], "const") + " : Int)", "big"}, mut, false
		case m == "Sign" && n == 0 && recv.term != "":
			return ev{"(bigSign " + recv.term + ")", "int"}, "", false
		case m == "Cmp" && n == 1 && recv.term != "":
			return ev{"(bigCmp " + recv.term + " " + arg(x.Args[0], "big") + ")", "int"}, "", false
		case m == "Uint64" && n == 0 && recv.term != "":
			return ev{"(bigUint64 " + recv.term + ")", "u64"}, "", false
		}
	}
	t.fail(e, "unrecognised expression")
	return
}

func mentions(e ast.Expr, name string) bool {
	found := false
	ast.Inspect(e, func(n ast.Node) bool {
		if id, ok := n.(*ast.Ident); ok && id.Name == name {
			found = true
		}
		return true
	})
	return found
}

// seq translates a statement list executed from state s into a Lean term of the result word.
func (t *evmTx) seq(stmts []ast.Stmt, s evState, ind string) string {
	if len(stmts) == 0 { // end of the case: the result is the top of the stack
		res, ar := s.pushed, s.pops
		if res == "" { // nothing pushed: the next word of the original stack is on top
			res, ar = fmt.Sprintf("w%d", s.pops), s.pops+1
		}
		if t.arity >= 0 && t.arity != ar {
			panic(xerr{"paths with different stack effect"})
		}
		t.arity = ar
		if t.opt {
			return ind + "some " + res
		}
		return ind + res
	}
	rest := stmts[1:]
	bind := func(name string, v ev) string { // let / Option.bind
		s.vars[name] = strings.TrimPrefix(v.kind, "?")
		if strings.HasPrefix(v.kind, "?") {
			return ind + "(" + v.term + ").bind fun " + name + " =>\n"
		}
		return ind + "let " + name + " := " + v.term + "\n"
	}
	switch x := stmts[0].(type) {
	case *ast.AssignStmt:
		if len(x.Lhs) != len(x.Rhs) || (x.Tok != token.DEFINE && x.Tok != token.ASSIGN) {
			break
		}
		out := ""
		for i, r := range x.Rhs {
			id, ok := x.Lhs[i].(*ast.Ident)
			if !ok {
				t.fail(x, "unrecognised assignment")
			}
			for _, l := range x.Lhs[:i] {
				if mentions(r, l.(*ast.Ident).Name) {
					t.fail(x, "parallel assignment reads a variable it writes")
				}
			}
			v, mut, push := t.expr(r, &s)
			out += bind(id.Name, v)
			if mut != "" && mut != id.Name {
				out += bind(mut, ev{id.Name, "big"})
			}
			if push {
				if s.pushed != "" {
					t.fail(x, "second push")
				}
				s.pushed = id.Name
			}
		}
		return out + t.seq(rest, s, ind)
	case *ast.ExprStmt:
		if strings.HasPrefix(src(t.fset, x.X), "c.debugf(") {
			return t.seq(rest, s, ind)
		}
		v, mut, push := t.expr(x.X, &s)
		t.pure(x.X, v)
		switch {
		case push && s.pushed == "":
			s.pushed = v.term
			return t.seq(rest, s, ind)
		case mut != "":
			return bind(mut, v) + t.seq(rest, s, ind)
		}
	case *ast.IfStmt:
		if x.Init != nil {
			break
		}
		c, _, _ := t.expr(x.Cond, &s)
		if t.pure(x.Cond, c).kind != "bool" {
			break
		}
		var els []ast.Stmt
		switch e := x.Else.(type) {
		case nil:
		case *ast.BlockStmt:
			els = e.List
		default:
			t.fail(x, "unrecognised else")
		}
		cat := func(a []ast.Stmt) []ast.Stmt { return append(append([]ast.Stmt{}, a...), rest...) }
		return ind + "if " + c.term + " then (\n" + t.seq(cat(x.Body.List), s.clone(), ind+"  ") + ")\n" +
			ind + "else (\n" + t.seq(cat(els), s.clone(), ind+"  ") + ")"
	case *ast.ForStmt: // for i := 0; i < 32; i++ { z[i] = f(x[i], y[i]) }
		if x.Init == nil || x.Cond == nil || x.Post == nil || len(x.Body.List) != 1 {
			break
		}
		init := strings.Fields(src(t.fset, x.Init))
		as, ok := x.Body.List[0].(*ast.AssignStmt)
		if !ok || len(init) != 3 || init[1] != ":=" || init[2] != "0" || src(t.fset, x.Cond) != init[0]+" < 32" ||
			src(t.fset, x.Post) != init[0]+"++" || as.Tok != token.ASSIGN || len(as.Lhs) != 1 {
			break
		}
		z, ok := as.Lhs[0].(*ast.IndexExpr)
		if !ok || src(t.fset, z.Index) != init[0] || s.vars[src(t.fset, z.X)] != "word" {
			break
		}
		t.loopVar, t.byteVars = init[0], nil
		f, _, _ := t.expr(as.Rhs[0], &s)
		t.loopVar = ""
		if f.kind != "byte" || len(t.byteVars) < 1 || len(t.byteVars) > 2 || mentions(as.Rhs[0], src(t.fset, z.X)) {
			break
		}
		lam := "fun b0 => "
		if len(t.byteVars) == 2 {
			lam = "fun b0 b1 => "
		}
		v := ev{fmt.Sprintf("bytewise%d (%s%s) 32 %s", len(t.byteVars), lam, f.term, strings.Join(t.byteVars, " ")), "word"}
		return bind(src(t.fset, z.X), v) + t.seq(rest, s, ind)
	}
	t.fail(stmts[0], "unrecognised statement")
	return ""
}

// evmCase finds `case NAME:` in the `switch op` of execute.
func evmCase(fd *ast.FuncDecl, name string) *ast.CaseClause {
	var found *ast.CaseClause
	ast.Inspect(fd.Body, func(n ast.Node) bool {
		sw, ok := n.(*ast.SwitchStmt)
		if !ok || fmt.Sprint(sw.Tag) != "op" {
			return true
		}
		for _, c := range sw.Body.List {
			cc := c.(*ast.CaseClause)
			if len(cc.List) == 1 && fmt.Sprint(cc.List[0]) == name && found == nil {
				found = cc
			}
		}
		return false
	})
	return found
}

func genEVM(fc *fileCache) {
	g := &genFile{ns: "EVM"}
	g.lines = append(g.lines, "open Shentu.Arith", "set_option linter.unusedVariables false -- Go variables that are assigned but only printed", "")
	file := "vm/contract.go"
	fd := fc.fn(file, "execute")
	for _, op := range evmOps {
		var params []string
		for i := 0; i < op.arity; i++ {
			params = append(params, fmt.Sprintf("w%d", i))
		}
		typ, body, where, ok := "Nat", "  0", file+" execute: case "+op.name+" not found", false
		if fd != nil {
			if cc := evmCase(fd, op.name); cc != nil {
				where = fmt.Sprintf("%s:%d execute: case %s", file, fc.fset.Position(cc.Pos()).Line, op.name)
				run := func(opt bool) (out string, t *evmTx, err error) {
					defer func() {
						if r := recover(); r != nil {
							if xe, isX := r.(xerr); isX {
								err = xe
								return
							}
							panic(r)
						}
					}()
					t = &evmTx{fset: fc.fset, opt: opt, arity: -1, file: fc.get(file), dir: filepath.Join(*repo, filepath.Dir(file))}
					out = t.seq(cc.Body, evState{vars: map[string]string{}}, "  ")
					return
				}
				out, t, err := run(false)
				if err == nil && t.fallible {
					typ = "Option Nat"
					out, t, err = run(true)
				}
				switch {
				case err != nil:
					where += ": " + err.Error()
				case t.arity != op.arity:
					where += fmt.Sprintf(": takes %d words from the stack, the EVM instruction takes %d", t.arity, op.arity)
				default:
					body, ok = out, true
				}
				if !ok {
					typ = "Nat"
				}
			}
		}
		g.lines = append(g.lines, fmt.Sprintf("/-- %s -/", strings.ReplaceAll(where, "-/", "- /")),
			fmt.Sprintf("def op_%s (%s : Nat) : %s :=\n%s", op.name, strings.Join(params, " "), typ, body),
			fmt.Sprintf("def op_%s_found : Bool := %v", op.name, ok), "")
		g.found = append(g.found, "op_"+op.name+"_found")
	}
	g.write("EVM", []string{"Shentu.Arith.BigOps"})
}
