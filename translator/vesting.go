package main

import (
	"go/ast"
	"go/token"
	"strings"
)

// genVesting: the lock on coins received through a locked send (C19).
//
// The expressions of x/auth (Unlock, the ManualVestingAccount methods) and x/bank (LockedSend) are coins-valued, which the
// expression translator does not cover.  What is extracted instead is the *skeleton* of each function as source text, in
// order: every `if` condition, every assignment to a field (x.F = …), every return of a value, and every keeper call that
// reads or writes accounts or moves coins.  Props/C19 pins each skeleton with a tie theorem next to the statement of the
// model function that mirrors it; any edit of a guard, of an updated field or of the order of the moves breaks the tie.
var skeletonCalls = []string{"k.AddCoins", "k.SubtractCoins", "k.SendCoins", "k.ak.SetAccount", "k.ak.GetAccount", "k.ak.NewAccountWithAddress", "vesting.NewManualVestingAccount", "mva.BaseVestingAccount.TrackDelegation",
	"s.ak.GetAccount", "s.ak.NewAccountWithAddress", "s.ak.SetAccount", "s.bk.SetBalance", "s.bk.GetBalance", "s.bk.BlockedAddr", "s.store.Set", "s.store.Delete", "s.SetAddressMeta",
	"k.Tx", "k.cvmk.Send", "k.BaseKeeper.SendCoins", "k.BaseKeeper.InputOutputCoins", "k.GetCode", "k.bk.SpendableCoins"}

// skeletonAllReturns: also record returns of several values (used where the point is WHICH error is handed on)
var skeletonAllReturns = false

func skeleton(fc *fileCache, rel, fn string, recvType string) []string {
	f := fc.get(rel)
	if f == nil {
		return nil
	}
	var fd *ast.FuncDecl
	for _, d := range f.Decls {
		x, ok := d.(*ast.FuncDecl)
		if !ok || x.Name.Name != fn || x.Body == nil {
			continue
		}
		if recvType != "" {
			if x.Recv == nil || len(x.Recv.List) != 1 || !strings.Contains(src(fc.fset, x.Recv.List[0].Type), recvType) {
				continue
			}
		}
		fd = x
	}
	if fd == nil {
		return nil
	}
	var out []string
	ast.Inspect(fd.Body, func(n ast.Node) bool {
		switch t := n.(type) {
		case *ast.IfStmt:
			c := src(fc.fset, t.Cond)
			if c != "err != nil" {
				out = append(out, "if "+c)
			}
		case *ast.AssignStmt:
			for i, l := range t.Lhs {
				if _, sel := l.(*ast.SelectorExpr); sel && t.Tok == token.ASSIGN && i < len(t.Rhs) {
					out = append(out, src(fc.fset, l)+" = "+src(fc.fset, t.Rhs[i]))
				}
			}
		case *ast.ReturnStmt:
			if len(t.Results) > 1 && skeletonAllReturns {
				var rs []string
				for _, r := range t.Results {
					rs = append(rs, src(fc.fset, r))
				}
				out = append(out, "return "+strings.Join(rs, ", "))
			}
			if len(t.Results) == 1 {
				r := src(fc.fset, t.Results[0])
				if r != "nil" && r != "err" && !strings.Contains(r, "Wrap") && !strings.Contains(r, "Errorf") {
					out = append(out, "return "+r)
				}
			}
		case *ast.CallExpr:
			fnm := src(fc.fset, t.Fun)
			for _, p := range skeletonCalls {
				if fnm == p {
					args := []string{}
					for _, a := range t.Args {
						args = append(args, src(fc.fset, a))
					}
					out = append(out, "call "+fnm+"("+strings.Join(args, ", ")+")")
				}
			}
		}
		return true
	})
	return out
}

func genVesting(fc *fileCache) {
	g := &genFile{ns: "Vesting"}
	emit := func(name, rel, fn, recv, what string) {
		sk := skeleton(fc, rel, fn, recv)
		g.fact(name, "List String", strList(sk), rel+" "+fn+": "+what)
		g.fact(name+"_found", "Bool", boolStr(len(sk) > 0), "")
		g.found = append(g.found, name+"_found")
	}
	emit("unlock", "x/auth/keeper/msg_server.go", "Unlock", "msgServer", "guards and updates of MsgUnlock")
	emit("lockedSend", "x/bank/keeper/msg_server.go", "LockedSend", "msgServer", "guards, account updates and coin moves of MsgLockedSend")
	emit("lockedCoins", "x/auth/types/vesting_account.go", "LockedCoins", "ManualVestingAccount", "what the bank treats as locked")
	emit("vestedCoins", "x/auth/types/vesting_account.go", "GetVestedCoins", "ManualVestingAccount", "")
	emit("vestingCoins", "x/auth/types/vesting_account.go", "GetVestingCoins", "ManualVestingAccount", "")
	emit("trackDelegation", "x/auth/types/vesting_account.go", "TrackDelegation", "ManualVestingAccount", "")
	g.write("Vesting", nil)

	// the bridge between the VM's account cache and the bank (C01, C18): what is written back, and that errors are handed on
	h := &genFile{ns: "CvmBridge"}
	emit2 := func(name, rel, fn, recv, what string) {
		sk := skeleton(fc, rel, fn, recv)
		h.fact(name, "List String", strList(sk), rel+" "+fn+": "+what)
		h.fact(name+"_found", "Bool", boolStr(len(sk) > 0), "")
		h.found = append(h.found, name+"_found")
	}
	emit2("updateAccount", "x/cvm/keeper/state.go", "UpdateAccount", "State", "write-back of one account of the VM's cache")
	emit2("removeAccount", "x/cvm/keeper/state.go", "RemoveAccount", "State", "SELFDESTRUCT")
	skeletonAllReturns = true
	emit2("call", "x/cvm/keeper/keeper.go", "Call", "Keeper", "MsgCall: the execution error is returned")
	skeletonAllReturns = false
	emit2("bankSend", "x/bank/keeper/keeper.go", "SendCoins", "Keeper", "a send to an address with code is routed through the VM")
	emit2("bankMultiSend", "x/bank/keeper/keeper.go", "InputOutputCoins", "Keeper", "a multi-send to an address with code is refused")
	h.write("CvmBridge", nil)
}
