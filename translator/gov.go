package main

import (
	"go/ast"
	"strings"
)

// typeSwitchCases returns, for the n-th type switch of a function, the source text of every case type.
func typeSwitchCases(fc *fileCache, rel, fn string, n int) ([]string, bool) {
	fd := fc.fn(rel, fn)
	if fd == nil {
		return nil, false
	}
	var out []string
	found := false
	i := 0
	ast.Inspect(fd.Body, func(nd ast.Node) bool {
		if ts, ok := nd.(*ast.TypeSwitchStmt); ok {
			if i == n {
				found = true
				for _, c := range ts.Body.List {
					cc := c.(*ast.CaseClause)
					for _, e := range cc.List {
						out = append(out, src(fc.fset, e))
					}
				}
			}
			i++
		}
		return true
	})
	return out, found
}

// kindsOf maps pointer case types to the model's proposal kinds; a value type never matches a
// content (contents are registered and decoded as pointers) and is therefore dropped.
func kindsOf(cases []string) []string {
	m := map[string]string{
		"*upgradetypes.SoftwareUpgradeProposal": "upgrade",
		"*certtypes.CertifierUpdateProposal":    "certifierUpdate",
		"*shieldtypes.ShieldClaimProposal":      "claim",
	}
	out := []string{}
	for _, c := range cases {
		if k, ok := m[c]; ok {
			out = append(out, k)
		}
	}
	return out
}

// ifBodyCalls: does the body of the n-th `if <cond>` in fn contain a call to callee?
func ifBodyCalls(fc *fileCache, rel, fn, cond, callee string, n int) (bool, bool) {
	fd := fc.fn(rel, fn)
	if fd == nil {
		return false, false
	}
	res, found := false, false
	i := 0
	ast.Inspect(fd.Body, func(nd ast.Node) bool {
		if is, ok := nd.(*ast.IfStmt); ok && src(fc.fset, is.Cond) == cond {
			if i == n {
				found = true
				ast.Inspect(is.Body, func(x ast.Node) bool {
					if ce, ok := x.(*ast.CallExpr); ok && src(fc.fset, ce.Fun) == callee {
						res = true
					}
					return true
				})
			}
			i++
		}
		return true
	})
	return res, found
}

func genGov(fc *fileCache) {
	g := &genFile{ns: "Gov"}
	tp := "x/gov/types/proposal.go"
	ms := "x/gov/keeper/msg_server.go"
	tl := "x/gov/keeper/tally.go"
	vt := "x/gov/keeper/vote.go"
	dp := "x/gov/keeper/deposit.go"
	eb := "x/gov/endblocker.go"

	cs, ok := typeSwitchCases(fc, tp, "HasSecurityVoting", 0)
	g.fact("securityVotingKinds", "List String", strList(kindsOf(cs)), "HasSecurityVoting case list: "+strings.Join(cs, ", "))
	g.fact("securityVotingKinds_found", "Bool", boolStr(ok), "")
	g.found = append(g.found, "securityVotingKinds_found")
	cs, ok = typeSwitchCases(fc, ms, "validateProposalByType", 0)
	g.fact("validatedKinds", "List String", strList(kindsOf(cs)), "validateProposalByType case list: "+strings.Join(cs, ", "))
	g.fact("validatedKinds_found", "Bool", boolStr(ok), "")
	g.found = append(g.found, "validatedKinds_found")
	cs, ok = typeSwitchCases(fc, tl, "Tally", 0)
	g.fact("certStakeTallyKinds", "List String", strList(kindsOf(cs)), "Tally parameter switch: "+strings.Join(cs, ", "))
	g.fact("certStakeTallyKinds_found", "Bool", boolStr(ok), "")
	g.found = append(g.found, "certStakeTallyKinds_found")

	r, ok := ifBodyCalls(fc, eb, "processSecurityVote", "endVoting", "k.RefundDepositsByProposalID", 0)
	g.fact("earlyPassRefunds", "Bool", boolStr(r), "processSecurityVote: the early-approval branch refunds the deposits")
	g.fact("earlyPassRefunds_found", "Bool", boolStr(ok), "")
	g.found = append(g.found, "earlyPassRefunds_found")

	// SecurityTally: a stored vote counts only if its voter is a certifier when the round is tallied
	{
		txt := ""
		if fd := fc.fn(tl, "SecurityTally"); fd != nil {
			if e := ifCond("IsCertifier", 0)(fc, fd); e != nil {
				txt = src(fc.fset, e)
			}
		}
		g.fact("secTallySkipsUnless", "String", quote(txt), "SecurityTally: the condition under which a stored vote is skipped")
	}

	opt := map[string]Var{"option": {"o", "int"}, "govTypes.OptionYes": iv("(1 : Int)"), "govTypes.OptionNo": iv("(3 : Int)"),
		"govTypes.OptionAbstain": iv("(2 : Int)"), "govTypes.OptionNoWithVeto": iv("(4 : Int)")}
	emitSite(fc, g, Site{Name: "certifierRoundBadOption", File: vt, Func: "AddVote", Loc: ifCond("option == govTypes.OptionYes", 0),
		Params: "(o : Int)", Type: "Bool", Default: "false", Vars: opt})

	st := map[string]Var{"proposal.Status": iv("status"), "types.StatusDepositPeriod": iv("(1 : Int)"),
		"types.StatusCertifierVotingPeriod": iv("(2 : Int)"), "types.StatusValidatorVotingPeriod": iv("(3 : Int)"),
		"proposal.IsProposerCouncilMember": {"council", "bool"},
		"proposal.TotalDeposit.IsAllGTE(k.GetDepositParams(ctx).MinDeposit)": {"reached", "bool"},
		"proposal.ProposalType() == shieldtypes.ProposalTypeShieldClaim":      {"isClaim", "bool"},
		"proposal.HasSecurityVoting()":                                         {"hasSec", "bool"}}
	emitSite(fc, g, Site{Name: "depositRefused", File: dp, Func: "AddDeposit", Loc: ifCond("proposal.IsProposerCouncilMember", 0),
		Params: "(status : Int) (council : Bool)", Type: "Bool", Default: "false", Vars: st})
	emitSite(fc, g, Site{Name: "depositActivates", File: dp, Func: "AddDeposit", Loc: ifCond("IsAllGTE", 0),
		Params: "(status : Int) (reached isClaim : Bool)", Type: "Bool", Default: "false", Vars: st})
	emitSite(fc, g, Site{Name: "voteInactive", File: vt, Func: "AddVote", Loc: ifCond("proposal.Status != types.StatusCertifierVotingPeriod", 0),
		Params: "(status : Int)", Type: "Bool", Default: "false", Vars: st})
	emitSite(fc, g, Site{Name: "entersCertifierRound", File: "x/gov/keeper/proposal.go", Func: "ActivateVotingPeriod", Loc: ifCond("proposal.HasSecurityVoting()", 0),
		Params: "(hasSec : Bool) (status : Int)", Type: "Bool", Default: "false", Vars: st})

	sub := map[string]Var{"initialDepositAmount": iv("initial"), "minimalInitialDepositAmount": iv("minInitial"),
		"k.IsCouncilMember(ctx, msg.GetProposer())": {"council", "bool"}}
	emitSite(fc, g, Site{Name: "submitRefused", File: ms, Func: "SubmitProposal", Loc: ifCond("initialDepositAmount.LT", 0),
		Params: "(initial minInitial : Int) (council : Bool)", Type: "Bool", Default: "false", Vars: sub})

	ev := map[string]Var{"pass": {"pass", "bool"}, "isCert": {"isCert", "bool"}}
	emitSite(fc, g, Site{Name: "endVoting", File: tl, Func: "SecurityTally", Loc: assignTo("endVoting", 0),
		Params: "(pass isCert : Bool)", Type: "Bool", Default: "false", Vars: ev})

	th := map[string]Var{"th.totalVotingPower": dv("total"), "th.tallyParams.Quorum": dv("quorum"), "th.tallyParams.Threshold": dv("threshold"),
		"th.tallyParams.VetoThreshold": dv("vetoTh"), "th.results[govTypes.OptionAbstain]": dv("abstain"),
		"th.results[govTypes.OptionNoWithVeto]": dv("veto"), "th.results[govTypes.OptionYes]": dv("yes"),
		"k.stakingKeeper.TotalBondedTokens(ctx)": iv("bonded"), "totalBondedByCertifiedIdentities": iv("bonded"),
		"percentVoting": dv("percent"), "nCertifiers": dv("nCert")}
	for _, f := range []struct{ fn, pfx string }{{"passAndVetoStakeResult", "stake"}, {"passAndVetoStakeResultForShieldClaim", "claim"}} {
		emitSite(fc, g, Site{Name: f.pfx + "NoBonded", File: tl, Func: f.fn, Loc: ifCond("IsZero()", 0),
			Params: "(bonded : Int)", Type: "Bool", Default: "false", Vars: th})
		emitSite(fc, g, Site{Name: f.pfx + "Percent", File: tl, Func: f.fn, Loc: assignTo("percentVoting", 0),
			Params: "(total : Dec) (bonded : Int)", Type: "Dec", Default: "Dec.zero", Vars: th})
		emitSite(fc, g, Site{Name: f.pfx + "BelowQuorum", File: tl, Func: f.fn, Loc: ifCond("percentVoting.LT", 0),
			Params: "(percent quorum : Dec)", Type: "Bool", Default: "false", Vars: th})
		emitSite(fc, g, Site{Name: f.pfx + "AllAbstain", File: tl, Func: f.fn, Loc: ifCond("Equal(sdk.ZeroDec())", 0),
			Params: "(total abstain : Dec)", Type: "Bool", Default: "false", Vars: th})
		emitSite(fc, g, Site{Name: f.pfx + "Vetoed", File: tl, Func: f.fn, Loc: ifCond("OptionNoWithVeto", 0),
			Params: "(veto total vetoTh : Dec)", Type: "Bool", Default: "false", Vars: th})
		emitSite(fc, g, Site{Name: f.pfx + "Passes", File: tl, Func: f.fn, Loc: ifCond("OptionYes", 0),
			Params: "(yes total abstain threshold : Dec)", Type: "Bool", Default: "false", Vars: th})
	}
	emitSite(fc, g, Site{Name: "secNoCertifiers", File: tl, Func: "passAndVetoSecurityResult", Loc: ifCond("nCertifiers.IsZero()", 0),
		Params: "(nCert : Dec)", Type: "Bool", Default: "false", Vars: th})
	emitSite(fc, g, Site{Name: "secPercent", File: tl, Func: "passAndVetoSecurityResult", Loc: assignTo("percentVoting", 0),
		Params: "(total nCert : Dec)", Type: "Dec", Default: "Dec.zero", Vars: th})
	emitSite(fc, g, Site{Name: "secBelowQuorum", File: tl, Func: "passAndVetoSecurityResult", Loc: ifCond("percentVoting.LT", 0),
		Params: "(percent quorum : Dec)", Type: "Bool", Default: "false", Vars: th})
	emitSite(fc, g, Site{Name: "secNoVotes", File: tl, Func: "passAndVetoSecurityResult", Loc: ifCond("th.totalVotingPower.IsZero()", 0),
		Params: "(total : Dec)", Type: "Bool", Default: "false", Vars: th})
	emitSite(fc, g, Site{Name: "secPasses", File: tl, Func: "passAndVetoSecurityResult", Loc: ifCond("OptionYes", 0),
		Params: "(yes total threshold : Dec)", Type: "Bool", Default: "false", Vars: th})

	g.lines = append(g.lines, "/-- `govTypes.ValidVoteOption` (cosmos-sdk): yes, abstain, no, no-with-veto -/",
		"def validOption (o : Nat) : Bool := o == 1 || o == 2 || o == 3 || o == 4", "",
		"def certifierRoundOption (o : Nat) : Bool := !(certifierRoundBadOption (o : Int))", "")
	g.write("Gov", []string{"Shentu.Base.Coins", "Shentu.Base.Dec"})
}
