package main

import (
	"go/ast"
)

// returnExpr: the n-th return statement's first result.
func returnExpr(n int) locator {
	return func(fc *fileCache, fd *ast.FuncDecl) ast.Expr {
		var found ast.Expr
		i := 0
		ast.Inspect(fd.Body, func(nd ast.Node) bool {
			if rs, ok := nd.(*ast.ReturnStmt); ok && found == nil && len(rs.Results) > 0 {
				if i == n {
					found = rs.Results[0]
				}
				i++
			}
			return true
		})
		return found
	}
}

// callArgSrcs: source text of argument k of every call to callee inside the function.
func callArgSrcs(fc *fileCache, rel, fn, callee string, k int) []string {
	fd := fc.fn(rel, fn)
	out := []string{}
	if fd == nil {
		return out
	}
	ast.Inspect(fd.Body, func(nd ast.Node) bool {
		if ce, ok := nd.(*ast.CallExpr); ok && src(fc.fset, ce.Fun) == callee && len(ce.Args) > k {
			out = append(out, src(fc.fset, ce.Args[k]))
		}
		return true
	})
	return out
}

func genOracle(fc *fileCache) {
	g := &genFile{ns: "Oracle"}
	wd := "x/oracle/keeper/withdraw.go"
	op := "x/oracle/keeper/operator.go"
	tk := "x/oracle/keeper/task.go"
	ms := "x/oracle/keeper/msg_server.go"

	g.fact("withdrawKeyOrder", "String", `"`+byteOrder(fc, "x/oracle/types/keys.go", "WithdrawStoreKey")+`"`, "byte order of the due block inside WithdrawStoreKey (x/oracle/types/keys.go)")
	for _, c := range []string{"MinScore", "MaxScore"} {
		v, ok := intConst(fc, "x/oracle/types/params.go", c)
		name := "minScore"
		if c == "MaxScore" {
			name = "maxScore"
		}
		g.fact(name, "Int", v, "x/oracle/types/params.go "+c)
		g.fact(name+"_found", "Bool", boolStr(ok), "")
		g.found = append(g.found, name+"_found")
	}
	{
		v, ok := intConst(fc, tk, "amplifier")
		g.fact("amplifier", "Int", v, tk+" amplifier")
		g.fact("amplifier_found", "Bool", boolStr(ok), "")
		g.found = append(g.found, "amplifier_found")
	}

	emitSite(fc, g, Site{Name: "matureSkip", File: wd, Func: "IterateMatureWithdraws", Loc: ifCond("DueBlock", 0),
		Params: "(due h : Int)", Type: "Bool", Default: "false",
		Vars: map[string]Var{"withdraw.DueBlock": iv("due"), "ctx.BlockHeight()": iv("h")}})
	emitSite(fc, g, Site{Name: "dueBlock", File: wd, Func: "CreateWithdraw", Loc: assignTo("dueBlock", 0),
		Params: "(h lock : Int)", Type: "Int", Default: "0",
		Vars: map[string]Var{"params.LockedInBlocks": iv("lock"), "ctx.BlockHeight()": iv("h")}})
	emitSite(fc, g, Site{Name: "belowMin", File: op, Func: "IsBelowMinCollateral", Loc: returnExpr(0),
		Params: "(amt minColl : Int)", Type: "Bool", Default: "false",
		Vars: map[string]Var{"currentCollateral.AmountOf(k.stakingKeeper.BondDenom(ctx))": iv("amt"), "params.MinimumCollateral": iv("minColl")}})

	emitSite(fc, g, Site{Name: "collWeight", File: op, Func: "GetCollateralAmount", Loc: returnExpr(1),
		Params: "(bondAmt : Int)", Type: "Int", Default: "0",
		Vars: map[string]Var{"operator.Collateral.AmountOf(k.stakingKeeper.BondDenom(ctx))": iv("bondAmt")}})

	score := map[string]Var{"ctx.BlockHeight()": iv("h"), "task.ClosingBlock": iv("closing"), "response.Score": iv("score"),
		"types.MinScore": iv("minScore"), "types.MaxScore": iv("maxScore")}
	emitSite(fc, g, Site{Name: "respClosed", File: tk, Func: "IsValidResponse", Loc: ifCond("ClosingBlock", 0),
		Params: "(h closing : Int)", Type: "Bool", Default: "false", Vars: score})
	emitSite(fc, g, Site{Name: "badScore", File: tk, Func: "IsValidResponse", Loc: ifCond("response.Score", 0),
		Params: "(score : Int)", Type: "Bool", Default: "false", Vars: score})

	rm := map[string]Var{"force": {"force", "bool"}, "task.Expiration": iv("expiration"), "ctx.BlockTime()": iv("t"),
		"ctx.BlockHeight()": iv("h"), "task.ClosingBlock": iv("closing"), "creatorAddr": {"taskCreator", "addr"}, "creator": {"deleter", "addr"}}
	emitSite(fc, g, Site{Name: "rmNotExpired", File: tk, Func: "RemoveTask", Loc: ifCond("Expiration", 0),
		Params: "(force : Bool) (expiration t : Int)", Type: "Bool", Default: "false", Vars: rm})
	emitSite(fc, g, Site{Name: "rmNotFinished", File: tk, Func: "RemoveTask", Loc: ifCond("ClosingBlock", 0),
		Params: "(h closing : Int)", Type: "Bool", Default: "false", Vars: rm})
	emitSite(fc, g, Site{Name: "rmNotCreator", File: tk, Func: "RemoveTask", Loc: ifCond("creatorAddr", 0),
		Params: "(taskCreator deleter : String)", Type: "Bool", Default: "false", Vars: rm})

	ct := map[string]Var{"ctx.BlockHeight()": iv("h"), "task.ClosingBlock": iv("closing"), "waitingBlocks": iv("wait")}
	emitSite(fc, g, Site{Name: "ctNotClosed", File: tk, Func: "CreateTask", Loc: ifCond("ClosingBlock", 0),
		Params: "(closing h : Int)", Type: "Bool", Default: "false", Vars: ct})
	emitSite(fc, g, Site{Name: "ctBadWait", File: tk, Func: "CreateTask", Loc: ifCond("waitingBlocks", 0),
		Params: "(wait : Int)", Type: "Bool", Default: "false", Vars: ct})
	emitSite(fc, g, Site{Name: "ctClosingBlock", File: tk, Func: "CreateTask", Loc: assignTo("closingBlock", 0),
		Params: "(h wait : Int)", Type: "Int", Default: "0", Vars: ct})
	msv := map[string]Var{"msg.Wait": iv("wait"), "msg.ValidDuration": iv("validNs")}
	emitSite(fc, g, Site{Name: "waitIsDefault", File: ms, Func: "CreateTask", Loc: ifCond("msg.Wait", 0),
		Params: "(wait : Int)", Type: "Bool", Default: "false", Vars: msv})
	emitSite(fc, g, Site{Name: "validIsDefault", File: ms, Func: "CreateTask", Loc: ifCond("msg.ValidDuration", 0),
		Params: "(validNs : Int)", Type: "Bool", Default: "false", Vars: msv})

	ag := map[string]Var{"result": iv("result"), "response.Score": iv("score"), "amount": iv("amount"), "totalCollateral": iv("total"),
		"minScoreCollateral": iv("minC"), "types.MinScore": iv("minScore"), "taskParams.AggregationResult": iv("aggRes")}
	emitSite(fc, g, Site{Name: "aggInit", File: tk, Func: "Aggregate", Loc: assignTo("result", 0),
		Params: "(aggRes : Int)", Type: "Int", Default: "0", Vars: ag})
	emitSite(fc, g, Site{Name: "aggAccum", File: tk, Func: "Aggregate", Loc: assignTo("result", 1),
		Params: "(result score amount : Int)", Type: "Int", Default: "0", Vars: ag})
	emitSite(fc, g, Site{Name: "aggMinResult", File: tk, Func: "Aggregate", Loc: assignTo("result", 2),
		Params: "(minC : Int)", Type: "Int", Default: "0", Vars: ag})
	emitSite(fc, g, Site{Name: "aggMean", File: tk, Func: "Aggregate", Loc: assignTo("result", 3),
		Params: "(result total : Int)", Type: "Int", Default: "0", Vars: ag})
	emitSite(fc, g, Site{Name: "aggFailResult", File: tk, Func: "Aggregate", Loc: assignTo("result", 4),
		Params: "(aggRes : Int)", Type: "Int", Default: "0", Vars: ag})
	emitSite(fc, g, Site{Name: "aggHasCollateral", File: tk, Func: "Aggregate", Loc: ifCond("totalCollateral.IsPositive", 0),
		Params: "(total : Int)", Type: "Bool", Default: "false", Vars: ag})
	emitSite(fc, g, Site{Name: "aggMinRegime", File: tk, Func: "Aggregate", Loc: ifCond("minScoreCollateral.MulRaw", 0),
		Params: "(minC total : Int)", Type: "Bool", Default: "false", Vars: ag})
	emitSite(fc, g, Site{Name: "aggIsMinScore", File: tk, Func: "Aggregate", Loc: ifCond("response.Score.Equal", 0),
		Params: "(score : Int)", Type: "Bool", Default: "false", Vars: ag})
	emitSite(fc, g, Site{Name: "aggPending", File: tk, Func: "Aggregate", Loc: ifCond("task.Status", 0),
		Params: "(status : Int)", Type: "Bool", Default: "false",
		Vars: map[string]Var{"task.Status": iv("status"), "types.TaskStatusPending": iv("(1 : Int)")}})

	db := map[string]Var{"task.Result": iv("result"), "types.MinScore": iv("minScore"), "types.MaxScore": iv("maxScore"),
		"taskParams.ThresholdScore": iv("threshold"), "response.Score": iv("score"), "collateral": iv("coll"), "amplifier": iv("amplifier"),
		"taskParams.Epsilon1": iv("eps1"), "taskParams.Epsilon2": iv("eps2"), "bounty.Amount": iv("bounty"), "totalValidTaskCollateral": iv("tv")}
	for _, f := range []struct{ fn, pfx string }{{"TotalValidTaskCollateral", "tv"}, {"DistributeBounty", "db"}} {
		emitSite(fc, g, Site{Name: f.pfx + "BranchMin", File: tk, Func: f.fn, Loc: ifCond("task.Result.Equal", 0),
			Params: "(result : Int)", Type: "Bool", Default: "false", Vars: db})
		emitSite(fc, g, Site{Name: f.pfx + "BranchLow", File: tk, Func: f.fn, Loc: ifCond("task.Result.LT", 0),
			Params: "(result threshold : Int)", Type: "Bool", Default: "false", Vars: db})
		emitSite(fc, g, Site{Name: f.pfx + "EligMin", File: tk, Func: f.fn, Loc: ifCond("response.Score.Equal", 0),
			Params: "(score : Int)", Type: "Bool", Default: "false", Vars: db})
		emitSite(fc, g, Site{Name: f.pfx + "EligLow", File: tk, Func: f.fn, Loc: ifCond("response.Score.LT", 0),
			Params: "(score threshold : Int)", Type: "Bool", Default: "false", Vars: db})
		emitSite(fc, g, Site{Name: f.pfx + "EligHigh", File: tk, Func: f.fn, Loc: ifCond("response.Score.GTE", 0),
			Params: "(score threshold : Int)", Type: "Bool", Default: "false", Vars: db})
	}
	emitSite(fc, g, Site{Name: "tvWeightMin", File: tk, Func: "TotalValidTaskCollateral", Loc: callArg("totalValidTaskCollateral.Add", 0, 0),
		Params: "(coll : Int)", Type: "Int", Default: "0", Vars: db})
	emitSite(fc, g, Site{Name: "tvWeightLow", File: tk, Func: "TotalValidTaskCollateral", Loc: callArg("totalValidTaskCollateral.Add", 1, 0),
		Params: "(coll score eps1 : Int)", Type: "Int", Default: "0", Vars: db})
	emitSite(fc, g, Site{Name: "tvWeightHigh", File: tk, Func: "TotalValidTaskCollateral", Loc: callArg("totalValidTaskCollateral.Add", 2, 0),
		Params: "(coll score eps2 : Int)", Type: "Int", Default: "0", Vars: db})
	emitSite(fc, g, Site{Name: "dbAmountMin", File: tk, Func: "DistributeBounty", Loc: assignTo("amount", 0),
		Params: "(bounty coll tv : Int)", Type: "Int", Default: "0", Vars: db})
	emitSite(fc, g, Site{Name: "dbAmountLow", File: tk, Func: "DistributeBounty", Loc: assignTo("amount", 1),
		Params: "(bounty coll score eps1 tv : Int)", Type: "Int", Default: "0", Vars: db})
	emitSite(fc, g, Site{Name: "dbAmountHigh", File: tk, Func: "DistributeBounty", Loc: assignTo("amount", 2),
		Params: "(bounty coll score eps2 tv : Int)", Type: "Int", Default: "0", Vars: db})
	emitSite(fc, g, Site{Name: "dbNoValid", File: tk, Func: "DistributeBounty", Loc: ifCond("totalValidTaskCollateral.IsZero", 0),
		Params: "(tv : Int)", Type: "Bool", Default: "false", Vars: db})
	g.fact("rewardDenoms", "List String", strList(callArgSrcs(fc, tk, "DistributeBounty", "sdk.NewCoin", 0)), "denomination argument of every reward coin built in DistributeBounty")
	g.write("Oracle", []string{"Shentu.Base.Coins"})
}

func boolStr(b bool) string {
	if b {
		return "true"
	}
	return "false"
}
