module veriftranslator

go 1.15
