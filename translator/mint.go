package main

import (
	"go/ast"
	"strings"
)

// genMint: the split of the block provision in x/mint (BeginBlocker and the keeper's ratio functions).
//
// Arithmetic sites are translated (ratios, pool share); the way the three shares are put together in
// BeginBlocker is extracted as text (coins-valued expressions are outside the expression translator) and
// pinned by tie theorems in Props/C01m.lean.
func genMint(fc *fileCache) {
	g := &genFile{ns: "Mint"}
	kp := "x/mint/keeper/keeper.go"
	ab := "x/mint/abci.go"

	emitSite(fc, g, Site{Name: "cpRatio", File: kp, Func: "GetCommunityPoolRatio", Loc: assignTo("ratio", 0),
		Params: "(cp supplyDec : Dec)", Type: "Dec", Default: "Dec.zero",
		Vars: map[string]Var{"coin.Amount": dv("cp"), "totalBondedTokensDec": dv("supplyDec")}})
	emitSite(fc, g, Site{Name: "sspZeroGuard", File: kp, Func: "GetShieldStakeForShieldPoolRatio", Loc: ifCond("totalBondedTokensDec", 0),
		Params: "(supplyDec : Dec)", Type: "Bool", Default: "false",
		Vars: map[string]Var{"totalBondedTokensDec": dv("supplyDec")}})
	emitSite(fc, g, Site{Name: "sspRatio", File: kp, Func: "GetShieldStakeForShieldPoolRatio", Loc: returnExpr(1),
		Params: "(pool : Int) (supplyDec : Dec)", Type: "Dec", Default: "Dec.zero",
		Vars: map[string]Var{"pool": iv("pool"), "totalBondedTokensDec": dv("supplyDec")}})
	emitSite(fc, g, Site{Name: "supplyDecCp", File: kp, Func: "GetCommunityPoolRatio", Loc: assignTo("totalBondedTokensDec", 0),
		Params: "(supply : Int)", Type: "Dec", Default: "Dec.zero",
		Vars: map[string]Var{"k.StakingTokenSupply(ctx)": iv("supply")}})
	emitSite(fc, g, Site{Name: "supplyDecSsp", File: kp, Func: "GetShieldStakeForShieldPoolRatio", Loc: assignTo("totalBondedTokensDec", 0),
		Params: "(supply : Int)", Type: "Dec", Default: "Dec.zero",
		Vars: map[string]Var{"k.StakingTokenSupply(ctx)": iv("supply")}})
	emitSite(fc, g, Site{Name: "poolMintDec", File: kp, Func: "GetPoolMint", Loc: assignTo("communityPoolMintDec", 0),
		Params: "(ratio : Dec) (minted : Int)", Type: "Dec", Default: "Dec.zero",
		Vars: map[string]Var{"ratio": dv("ratio"), "mintedCoin.Amount": iv("minted")}})
	emitSite(fc, g, Site{Name: "poolMintAmt", File: kp, Func: "GetPoolMint", Loc: assignTo("amount", 0),
		Params: "(x : Dec)", Type: "Int", Default: "0",
		Vars: map[string]Var{"communityPoolMintDec": dv("x")}})
	emitSite(fc, g, Site{Name: "sendCpSkips", File: kp, Func: "SendToCommunityPool", Loc: ifCond("AmountOf", 0),
		Params: "(amt : Int)", Type: "Bool", Default: "false",
		Vars: map[string]Var{"amount.AmountOf(k.stakingKeeper.BondDenom(ctx))": iv("amt")}})
	emitSite(fc, g, Site{Name: "sendSspSkips", File: kp, Func: "SendToShieldRewards", Loc: ifCond("AmountOf", 0),
		Params: "(amt : Int)", Type: "Bool", Default: "false",
		Vars: map[string]Var{"amount.AmountOf(k.stakingKeeper.BondDenom(ctx))": iv("amt")}})

	// the denomination test of GetCommunityPoolRatio: only the bond denomination's entry of the pool counts
	cpDenom := ""
	if fd := fc.fn(kp, "GetCommunityPoolRatio"); fd != nil {
		if e := ifCond("coin.Denom", 0)(fc, fd); e != nil {
			cpDenom = src(fc.fset, e)
		}
	}
	g.fact("cpDenomTest", "String", quote(cpDenom), kp+" GetCommunityPoolRatio: which entry of the community pool is read")

	// BeginBlocker: how the provision is put together and where each share goes (source text)
	rhs := func(lhs string) string {
		fd := fc.fn(ab, "BeginBlocker")
		if fd == nil {
			return ""
		}
		if e := assignTo(lhs, 0)(fc, fd); e != nil {
			return src(fc.fset, e)
		}
		return ""
	}
	g.fact("mintedCoinSrc", "String", quote(rhs("mintedCoin")), ab+" BeginBlocker: the block provision")
	g.fact("mintedCoinsSrc", "String", quote(rhs("mintedCoins")), ab+" BeginBlocker")
	g.fact("cpRatioSrc", "String", quote(rhs("communityPoolRatio")), ab+" BeginBlocker")
	g.fact("cpCoinsSrc", "String", quote(rhs("communityPoolCoins")), ab+" BeginBlocker")
	g.fact("sspRatioSrc", "String", quote(rhs("shieldStakeForShieldPoolRatio")), ab+" BeginBlocker")
	g.fact("sspCoinsSrc", "String", quote(rhs("SPPCoins")), ab+" BeginBlocker")
	g.fact("feesSrc", "String", quote(rhs("collectedFeesCoins")), ab+" BeginBlocker: what is left for the fee collector")
	g.fact("mintArg", "List String", strList(callArgSrcs(fc, ab, "BeginBlocker", "k.MintCoins", 1)), ab+" BeginBlocker: what is minted")
	g.fact("feesArg", "List String", strList(callArgSrcs(fc, ab, "BeginBlocker", "k.AddCollectedFees", 1)), ab+" BeginBlocker: what goes to the fee collector")
	g.fact("cpArg", "List String", strList(callArgSrcs(fc, ab, "BeginBlocker", "k.SendToCommunityPool", 1)), ab+" BeginBlocker: what goes to the community pool")
	g.fact("sspArg", "List String", strList(callArgSrcs(fc, ab, "BeginBlocker", "k.SendToShieldRewards", 1)), ab+" BeginBlocker: what goes to the shield rewards")
	// order of the statements that move coins (a share sent before it is minted would fail)
	var order []string
	if fd := fc.fn(ab, "BeginBlocker"); fd != nil {
		ast.Inspect(fd.Body, func(nd ast.Node) bool {
			if ce, ok := nd.(*ast.CallExpr); ok {
				f := src(fc.fset, ce.Fun)
				if strings.HasPrefix(f, "k.") && !strings.HasPrefix(f, "k.GetMinter") && !strings.HasPrefix(f, "k.SetMinter") && !strings.HasPrefix(f, "k.GetParams") &&
					(strings.Contains(f, "Mint") || strings.Contains(f, "Send") || strings.Contains(f, "AddCollectedFees") || strings.Contains(f, "Burn") || strings.Contains(f, "Ratio")) {
					order = append(order, f)
				}
			}
			return true
		})
	}
	g.fact("moveOrder", "List String", strList(order), ab+" BeginBlocker: the keeper calls that mint or move coins, in source order")
	// where the two keeper functions send the coins
	g.fact("cpSendCall", "List String", strList(calleesMatching(fc, kp, "SendToCommunityPool", "k.dk.")), kp+" SendToCommunityPool")
	g.fact("sspSendCall", "List String", strList(calleesMatching(fc, kp, "SendToShieldRewards", "k.shieldKeeper.")), kp+" SendToShieldRewards")
	g.write("Mint", []string{"Shentu.Base.Dec"})
}

func quote(s string) string { return `"` + strings.ReplaceAll(strings.ReplaceAll(s, `\`, `\\`), `"`, `\"`) + `"` }

// calleesMatching: callee source of every call inside fn whose callee starts with prefix.
func calleesMatching(fc *fileCache, rel, fn, prefix string) []string {
	out := []string{}
	fd := fc.fn(rel, fn)
	if fd == nil {
		return out
	}
	ast.Inspect(fd.Body, func(nd ast.Node) bool {
		if ce, ok := nd.(*ast.CallExpr); ok {
			if f := src(fc.fset, ce.Fun); strings.HasPrefix(f, prefix) {
				out = append(out, f)
			}
		}
		return true
	})
	return out
}
