module verifharness

go 1.15

require (
	github.com/certikfoundation/shentu v0.0.0
	github.com/cosmos/cosmos-sdk v0.42.4
	github.com/hyperledger/burrow v0.31.0
	github.com/tendermint/tendermint v0.34.9
	github.com/tendermint/tm-db v0.6.4
)

replace github.com/certikfoundation/shentu => /repo

replace google.golang.org/grpc => google.golang.org/grpc v1.33.2

replace github.com/gogo/protobuf => github.com/regen-network/protobuf v1.3.2-alpha.regen.4
