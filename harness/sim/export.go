package sim

import (
	"encoding/json"
	"fmt"
	"os"
	"reflect"
	"regexp"
	"sort"
	"strings"

	tmproto "github.com/tendermint/tendermint/proto/tendermint/types"

	authtypes "github.com/cosmos/cosmos-sdk/x/auth/types"
)

var exportMods = []string{"bank", "vesting", "oracle", "shield", "gov", "cert", "cvm", "staking", "distr"}

// observeNode renders the observable state of every module of a node (committed state).
func observeNode(n *Node, b *BlockRec) map[string]interface{} {
	c := &Chain{App: n.App}
	ctx := n.App.BaseApp.NewContext(true, tmproto.Header{ChainID: ChainID, Height: b.Height, Time: b.Time})
	out := map[string]interface{}{}
	for _, m := range exportMods {
		var v interface{}
		pi := catch(func() { v = observeModule(c, ctx, m) })
		if pi != nil {
			v = map[string]interface{}{"observe_panic": pi.Value}
		}
		bz, _ := json.Marshal(v)
		out[m] = decodeNum(bz)
	}
	return out
}

func decodeNum(bz []byte) interface{} {
	dec := json.NewDecoder(strings.NewReader(string(bz)))
	dec.UseNumber()
	var v interface{}
	dec.Decode(&v)
	return v
}

// heightIndexed: fields that hold a block height measured from the export point; the export convention
// (state of block H re-imported as the start of block H+1) may move them by one block.
func heightIndexed(path string) bool {
	return strings.Contains(path, "oracle.") && (strings.HasSuffix(path, ".due") || strings.HasSuffix(path, ".closing") || strings.HasSuffix(path, ".closing_block") ||
		strings.Contains(path, ".closing[") || strings.HasSuffix(path, ".waiting") || strings.HasSuffix(path, ".waiting_blocks"))
}

// dropEmptyBalances: the SDK bank export lists an address whose balance is zero with an empty coin list, and does not store
// it on import; the two are the same balance.
func dropEmptyBalances(path string, l []interface{}) []interface{} {
	if !strings.HasSuffix(path, "bank.balances") {
		return l
	}
	var out []interface{}
	for _, v := range l {
		if m, ok := v.(map[string]interface{}); ok {
			if cs, ok := m["coins"].([]interface{}); ok && len(cs) == 0 {
				continue
			}
		}
		out = append(out, v)
	}
	return out
}

var closingList = regexp.MustCompile(`oracle\.closing\[\d+\]\[1\]$`)

func sortedByString(l []interface{}) []interface{} {
	out := append([]interface{}{}, l...)
	sort.SliceStable(out, func(i, j int) bool { return fmt.Sprint(out[i]) < fmt.Sprint(out[j]) })
	return out
}

// sortedByKey orders a list of objects by their address (export order is store order, which is the same on both nodes except
// where a module iterates a Go map to build the list).
func sortedByKey(l []interface{}) []interface{} {
	key := func(v interface{}) (string, bool) {
		m, ok := v.(map[string]interface{})
		if !ok {
			return "", false
		}
		for _, k := range []string{"address", "delegator_address", "addr"} {
			if s, ok := m[k].(string); ok {
				// (oracle withdrawals are stored under a little-endian height key: their order changes with the import height)
				return s + fmt.Sprint(m["validator_address"]) + "|" + fmt.Sprint(m["amount"]) + fmt.Sprint(m["amt"]) + "|" + fmt.Sprintf("%024s%024s", fmt.Sprint(m["due"]), fmt.Sprint(m["due_block"])), true
			}
		}
		return "", false
	}
	for _, v := range l {
		if _, ok := key(v); !ok {
			return l
		}
	}
	out := append([]interface{}{}, l...)
	sort.SliceStable(out, func(i, j int) bool { a, _ := key(out[i]); b, _ := key(out[j]); return a < b })
	return out
}

// diffJSON lists the paths at which two observations differ.
func diffJSON(path string, a, b interface{}, tolerateHeights bool, out *[]string) {
	if len(*out) > 12 {
		return
	}
	switch x := a.(type) {
	case map[string]interface{}:
		y, ok := b.(map[string]interface{})
		if !ok {
			*out = append(*out, fmt.Sprintf("%s: %v vs %v", path, trunc(fmt.Sprint(a), 80), trunc(fmt.Sprint(b), 80)))
			return
		}
		keys := map[string]bool{}
		for k := range x {
			keys[k] = true
		}
		for k := range y {
			keys[k] = true
		}
		var ks []string
		for k := range keys {
			ks = append(ks, k)
		}
		sort.Strings(ks)
		for _, k := range ks {
			diffJSON(path+"."+k, x[k], y[k], tolerateHeights, out)
		}
	case []interface{}:
		y, ok := b.([]interface{})
		if ok {
			x, y = sortedByKey(dropEmptyBalances(path, x)), sortedByKey(dropEmptyBalances(path, y))
			// the tasks that close in one block: the running node keeps them in the order of their creation, the import rebuilds
			// the list in store order.  The end-blocker handles each task on its own (aggregation of that task, rewards added to
			// operators), so the order changes no state; that the two nodes stay equal is what the continuation blocks decide.
			if closingList.MatchString(path) {
				x, y = sortedByString(x), sortedByString(y)
			}
		}
		if !ok || len(x) != len(y) {
			// name the elements that one side lacks
			ra, rb := map[string]bool{}, map[string]bool{}
			for _, e := range x {
				ra[fmt.Sprint(e)] = true
			}
			for _, e := range y {
				rb[fmt.Sprint(e)] = true
			}
			var only []string
			for k := range ra {
				if !rb[k] {
					only = append(only, "first only: "+trunc(k, 160))
				}
			}
			for k := range rb {
				if !ra[k] {
					only = append(only, "second only: "+trunc(k, 160))
				}
			}
			sort.Strings(only)
			if len(only) > 3 {
				only = only[:3]
			}
			*out = append(*out, fmt.Sprintf("%s: %d vs %d elements; %s", path, len(x), len(y), strings.Join(only, "; ")))
			return
		}
		for i := range x {
			diffJSON(fmt.Sprintf("%s[%d]", path, i), x[i], y[i], tolerateHeights, out)
		}
	default:
		if !reflect.DeepEqual(a, b) {
			if heightIndexed(path) && (strings.HasSuffix(path, ".waiting") || strings.HasSuffix(path, ".waiting_blocks")) {
				return // the stored count of waiting blocks is re-based to the import height
			}
			if heightIndexed(path) {
				var p, q int64
				if _, e1 := fmt.Sscan(fmt.Sprint(a), &p); e1 == nil {
					if _, e2 := fmt.Sscan(fmt.Sprint(b), &q); e2 == nil && (q == p+1 || q == p) {
						return
					}
				}
			}
			*out = append(*out, fmt.Sprintf("%s: %v vs %v", path, trunc(fmt.Sprint(a), 80), trunc(fmt.Sprint(b), 80)))
		}
	}
}

// ExportProfile (C20): node R replays a history up to a block chosen at random, its state is exported and node X is started from
// the export; X is exported again at once (round trip) and both nodes are fed the rest of the history and a few quiet blocks;
// their observable states are compared after every block (height-indexed oracle deadlines may differ by the one block that the
// export convention introduces, and what follows from it; for them the comparison is made once both nodes are quiescent).
func ExportProfile(seed int64, out *Recorder, nOps int) *Chain {
	rng := newRng(seed)
	base := detBase[int(uint64(seed)%uint64(len(detBase)))]
	quiet := NewRecorder(nopWriter{}, nil)
	a := Profiles[base].Run(seed, quiet, nOps)
	out.Reset()
	names := D{}
	for _, ac := range a.Accts {
		names[ac.Name] = Hex(ac.Addr)
	}
	for _, mn := range []string{"fee_collector", "distribution", "mint", "bonded_tokens_pool", "not_bonded_tokens_pool", "gov", "oracle", "shield", "cvm"} {
		names["mod."+mn] = Hex(authtypes.NewModuleAddress(mn))
	}
	out.emit(D{"k": "genesis", "seed": seed, "h": a.Cfg.H0, "t": nsStr(a.Cfg.T0), "names": names, "profile": "export", "base": base, "st": D{}})
	var blocks []*BlockRec
	for _, b := range a.Blocks {
		if b.AppHash != nil {
			blocks = append(blocks, b)
		}
	}
	a.Halted = ""
	if len(blocks) < 3 {
		return a
	}
	cut := 1 + rng.Intn(len(blocks)-1) // export after blocks[cut-1]
	r := NewNode(a.Genesis, a.Cfg.H0, a.Cfg.T0, "")
	defer r.Close()
	claimCut := base == "shield" && rng.Intn(2) == 0 // prefer an export taken while a claim holds a lock
	for i, b := range blocks[:len(blocks)-1] {
		if i >= cut && !claimCut {
			break
		}
		if _, _, _, pi := r.Apply(b); pi != nil {
			out.emit(D{"k": "xcmp", "h": b.Height, "phase": "replay", "diffs": []interface{}{"replay aborted: " + pi.Value}})
			return a
		}
		if claimCut {
			ctx := r.App.BaseApp.NewContext(true, tmproto.Header{ChainID: ChainID, Height: b.Height, Time: b.Time})
			if r.App.VerifShieldKeeper().GetTotalClaimed(ctx).IsPositive() && rng.Intn(2) == 0 {
				cut = i + 1
				break
			}
			if i+2 >= len(blocks) {
				cut = i + 1
				break
			}
		}
	}
	last := blocks[cut-1]
	var exp1 []byte
	var expH int64
	if pi := catch(func() {
		e, err := r.App.ExportAppStateAndValidators(false, nil)
		if err != nil {
			panic(err)
		}
		exp1, expH = e.AppState, e.Height
	}); pi != nil {
		out.emit(D{"k": "xcmp", "h": last.Height, "phase": "export", "diffs": []interface{}{"export aborted: " + pi.Value}})
		return a
	}
	var x, y *Node
	if pi := catch(func() { x = newNodeNoCommit(exp1, expH, last.Time); y = NewNode(exp1, expH, last.Time, "") }); pi != nil {
		out.emit(D{"k": "xcmp", "h": last.Height, "phase": "import", "diffs": []interface{}{"import aborted: " + trunc(pi.Value, 300)}})
		return a
	}
	defer x.Close()
	defer y.Close()
	tolerate := base == "oracle"
	pendingAtCut := false
	if om, ok := observeNode(r, last)["oracle"].(map[string]interface{}); ok {
		if ts, ok := om["tasks"].([]interface{}); ok {
			for _, t := range ts {
				// every stored task has its closing block re-based (pending or not), and later operations on it (responses,
				// deletion, replacement) compare the height with that block
				if _, ok := t.(map[string]interface{}); ok {
					pendingAtCut = true
				}
			}
		}
	}
	// 1. exporting again yields the same state
	var diffs []string
	if pi := catch(func() {
		e2, err := y.App.ExportAppStateAndValidators(false, nil)
		if err != nil {
			panic(err)
		}
		diffJSON("export", decodeNum(exp1), decodeNum(e2.AppState), false, &diffs)
	}); pi != nil {
		diffs = append(diffs, "second export aborted: "+pi.Value)
	}
	curTxs := 0
	emit := func(h int64, phase string, ds []string) {
		arr := []interface{}{}
		for _, d := range ds {
			arr = append(arr, d)
		}
		out.emit(D{"k": "xcmp", "h": h, "phase": phase, "base": base, "cut": last.Height, "diffs": arr, "txs": curTxs})
	}
	emit(last.Height, "reexport", diffs)
	// 2. the observable state right after the import
	diffs = nil
	diffJSON("", observeNode(r, last), observeNode(y, last), tolerate, &diffs)
	emit(last.Height, "imported", diffs)
	// every accounting identity holds on the imported state: the driver evaluates its block-boundary monitors on it
	out.emit(D{"k": "xstate", "h": last.Height, "t": nsStr(last.Time), "phase": "imported", "st": observeNode(y, last)})
	// 3. the same further blocks
	rest := append([]*BlockRec{}, blocks[cut:]...)
	lastT, lastH := blocks[len(blocks)-1].Time, blocks[len(blocks)-1].Height
	nQuiet := 12
	if base == "oracle" {
		nQuiet = 300 // longer than the longest lock of collateral withdrawals, counted in blocks
	}
	for i := 0; i < nQuiet; i++ { // quiet blocks: let every deadline pass on both nodes
		lastH++
		lastT = lastT.Add(a.quietGap())
		rest = append(rest, &BlockRec{Height: lastH, Time: lastT})
	}
	for i, b := range rest {
		curTxs = len(b.Txs)
		_, rr, _, p1 := r.Apply(b)
		_, rx, _, p2 := x.Apply(b)
		diffs = nil
		if p1 != nil || p2 != nil {
			if (p1 == nil) != (p2 == nil) {
				diffs = append(diffs, fmt.Sprintf("block processing aborted on one node only: original %v, imported %v", p1 != nil, p2 != nil))
			}
			emit(b.Height, "continue", diffs)
			break
		}
		final := i == len(rest)-1
		if os.Getenv("VERIF_EXPORT_DEBUG") != "" {
			var dd []string
			diffJSON("", observeNode(r, b), observeNode(x, b), tolerate, &dd)
			for _, d := range dd {
				fmt.Fprintf(os.Stderr, "h=%d state: %s\n", b.Height, d)
			}
			for k := range rr {
				if k < len(rx) {
					if d := SameResult(rr[k], rx[k]); d != "" && !strings.HasPrefix(d, "gas") {
						fmt.Fprintf(os.Stderr, "h=%d tx %d: %s\n", b.Height, k, d)
					}
				}
			}
		}
		if !tolerate || final {
			for k := range rr {
				if k < len(rx) {
					if d := SameResult(rr[k], rx[k]); d != "" && !strings.HasPrefix(d, "gas") {
						diffs = append(diffs, fmt.Sprintf("tx %d: %s", k, d))
					}
				}
			}
			diffJSON("", observeNode(r, b), observeNode(x, b), tolerate, &diffs)
		}
		phase := "continue"
		if final {
			phase = "final"
			if tolerate && pendingAtCut && len(diffs) > 0 {
				// The imported node closes a task that was pending at the export one block later (the export convention). The
				// responses it accepts in that block and the collateral weights it reads then are those of the later block: the
				// outcome of such a task, and the rewards that follow from it, differ by construction. Collateral and the
				// withdrawals of collateral do not depend on it and are still compared.
				var keep []string
				for _, d := range diffs {
					if strings.Contains(d, ".coll") || strings.HasPrefix(d, ".oracle.wd") || strings.HasPrefix(d, ".oracle.total") {
						keep = append(keep, d)
					}
				}
				phase = "final-deadline-shift"
				diffs = keep
			}
		}
		emit(b.Height, phase, diffs)
		if final {
			out.emit(D{"k": "xstate", "h": b.Height, "t": nsStr(b.Time), "phase": "final", "st": observeNode(x, b)})
		}
	}
	return a
}
