package sim

// Profile "create", second half: scenarios compared instruction by instruction with the Lean interpreter model, which now
// contains CREATE and CREATE2 (the first half, GenCreateFactory, keeps the facts that hold by construction).
//
//   factory   one to three creations (CREATE / CREATE2, with and without endowment, sufficient or not, CREATE2 with a repeated
//             salt: the address is taken the second time), each followed by a record of what came back (result word,
//             RETURNDATASIZE, a slice of the return buffer, EXTCODESIZE / EXTCODEHASH / BALANCE of the new address, a CALL
//             into the deployed code)
//   init code returns a runtime, returns nothing, reverts (with data), INVALID, runs out of gas (the constructor runs on the
//             creator's gas), SELFDESTRUCTs (to the creator, to a third address, to itself), emits a log and then succeeds
//             or reverts, stores what it sees (CALLER, ORIGIN, CALLVALUE, CALLDATASIZE, ADDRESS, CODESIZE), creates a
//             grandchild (nested CREATE / CREATE2, itself succeeding or failing), returns more than 24576 bytes
//   wrapper   direct; through a CALL; through a STATICCALL (creation in a read-only frame); through a DELEGATECALL / CALLCODE
//             (the creator is the delegating contract); twice through CALLs (the sequence counter is the CVM's, not the
//             frame's; CREATE2 hits its own earlier address); inside a frame that then REVERTs or hits INVALID (the creation is
//             discarded by the enclosing frame); in a loop

import (
	"fmt"
	"math/big"
	"math/rand"

	"github.com/hyperledger/burrow/crypto"
)

var createMid = crypto.Address{0x3d, 0x1d, 0x00, 0x00, 0x00, 0x00, 0x00, 0x00, 0x00, 0x00, 0x00, 0x00, 0x00, 0x00, 0x00, 0x00, 0x00, 0x00, 0x00, 0x03}
var createThird = crypto.Address{0x7e, 0x1d, 0x00, 0x00, 0x00, 0x00, 0x00, 0x00, 0x00, 0x00, 0x00, 0x00, 0x00, 0x00, 0x00, 0x00, 0x00, 0x00, 0x00, 0x04}

// an assembler whose program is followed by data blocks (init codes) addressed by labels
type tailAsm struct {
	*vmAsm
	tails []struct {
		l int
		b []byte
	}
}

func newTailAsm() *tailAsm { return &tailAsm{vmAsm: newAsm()} }

func (t *tailAsm) data(b []byte) int {
	l := t.newLabel()
	t.tails = append(t.tails, struct {
		l int
		b []byte
	}{l, b})
	return l
}

func (t *tailAsm) finish() []byte {
	for _, x := range t.tails {
		t.labels[x.l] = len(t.code)
		t.op(x.b...)
	}
	return t.bytes()
}

// emitCreate: copy `init` to memory at memAt and create; the result word is left on the stack
func (t *tailAsm) emitCreate(op byte, init []byte, value, salt *big.Int, memAt uint64) {
	l := t.data(init)
	t.pushU(uint64(len(init)))
	t.pushLabel(l)
	t.pushU(memAt)
	t.op(0x39) // CODECOPY(memAt, l, n)
	if op == 0xf5 {
		t.push(salt)
	}
	t.pushU(uint64(len(init)))
	t.pushU(memAt)
	t.push(value)
	t.op(op)
}

// runtime codes a constructor may deploy
func createRuntime(r *rand.Rand) ([]byte, string) {
	switch r.Intn(5) {
	case 0:
		return []byte{0x00}, "stop"
	case 1: // SSTORE(1, CALLER); LOG0(0,0); MSTORE(0,0x42); RETURN(0,32)
		return []byte{0x33, 0x60, 0x01, 0x55, 0x60, 0x00, 0x60, 0x00, 0xa0, 0x60, 0x42, 0x60, 0x00, 0x52, 0x60, 0x20, 0x60, 0x00, 0xf3}, "store"
	case 2: // SELFDESTRUCT(CALLER)
		return []byte{0x33, 0xff}, "suicide"
	case 3: // REVERT(0,0)
		return []byte{0x60, 0x00, 0x60, 0x00, 0xfd}, "reverting"
	default: // ADDRESS BALANCE -> RETURN
		return []byte{0x30, 0x31, 0x60, 0x00, 0x52, 0x60, 0x20, 0x60, 0x00, 0xf3}, "balance"
	}
}

// initCode builds one constructor; depth > 0 allows a nested creation
func createInit(r *rand.Rand, depth int) ([]byte, string) {
	t := newTailAsm()
	retRuntime := func(rt []byte) {
		l := t.data(rt)
		t.pushU(uint64(len(rt)))
		t.pushLabel(l)
		t.pushU(0)
		t.op(0x39)
		t.pushU(uint64(len(rt)))
		t.pushU(0)
		t.op(0xf3)
	}
	kind := r.Intn(16)
	if depth == 0 && kind == 12 {
		kind = 0
	}
	switch kind {
	case 0, 1:
		rt, n := createRuntime(r)
		retRuntime(rt)
		return t.finish(), "ok-" + n
	case 2: // RETURN(0,0)
		t.op(0x60, 0x00, 0x60, 0x00, 0xf3)
		return t.finish(), "okEmpty"
	case 3: // SSTORE(0,1); REVERT(0,0)
		t.op(0x60, 0x01, 0x60, 0x00, 0x55, 0x60, 0x00, 0x60, 0x00, 0xfd)
		return t.finish(), "revert"
	case 4: // MSTORE(0, 0xabcd); REVERT(28, 4)
		t.op(0x61, 0xab, 0xcd, 0x60, 0x00, 0x52, 0x60, 0x04, 0x60, 0x1c, 0xfd)
		return t.finish(), "revertData"
	case 5: // SSTORE(0,1); INVALID
		t.op(0x60, 0x01, 0x60, 0x00, 0x55, 0xfe)
		return t.finish(), "invalid"
	case 6: // JUMPDEST PUSH1 0 JUMP: burns the creator's gas
		t.op(0x5b, 0x60, 0x00, 0x56)
		return t.finish(), "outOfGas"
	case 7: // SELFDESTRUCT to the creator / a third address / itself
		switch r.Intn(3) {
		case 0:
			t.op(0x33, 0xff)
			return t.finish(), "suicideToCreator"
		case 1:
			t.pushN(20, addrWord(createThird))
			t.op(0xff)
			return t.finish(), "suicideToThird"
		default:
			t.op(0x30, 0xff)
			return t.finish(), "suicideToSelf"
		}
	case 8: // LOG1(0, 0, topic 7) then succeed or revert
		t.op(0x60, 0x07, 0x60, 0x00, 0x60, 0x00, 0xa1)
		if r.Intn(2) == 0 {
			rt, n := createRuntime(r)
			retRuntime(rt)
			return t.finish(), "logOk-" + n
		}
		t.op(0x60, 0x00, 0x60, 0x00, 0xfd)
		return t.finish(), "logRevert"
	case 9, 10: // what the constructor sees: CALLER, ORIGIN, CALLVALUE, CALLDATASIZE, ADDRESS, CODESIZE, BALANCE(self) -> slots 1..7
		ops := []byte{0x33, 0x32, 0x34, 0x36, 0x30, 0x38}
		for i, o := range ops {
			if r.Intn(3) != 0 {
				t.op(o)
				t.pushU(uint64(i + 1))
				t.op(0x55)
			}
		}
		if r.Intn(2) == 0 {
			t.op(0x30, 0x31) // ADDRESS BALANCE: the endowment has arrived
			t.pushU(7)
			t.op(0x55)
		}
		if r.Intn(3) == 0 { // CALLDATALOAD(0): the first word of the init code, in the implementation
			t.pushU(0)
			t.op(0x35)
			t.pushU(8)
			t.op(0x55)
		}
		rt, n := createRuntime(r)
		retRuntime(rt)
		return t.finish(), "ctx-" + n
	case 11: // returns more than the specification's code size limit (24577 zero bytes)
		t.pushU(24577)
		t.pushU(0)
		t.op(0xf3)
		return t.finish(), "bigCode"
	case 12: // a grandchild, then success or failure of the constructor itself
		inner, n := createInit(r, depth-1)
		op := byte(0xf0)
		if r.Intn(3) == 0 {
			op = 0xf5
		}
		val := big.NewInt(int64([]int{0, 0, 1, 200}[r.Intn(4)]))
		t.emitCreate(op, inner, val, big.NewInt(int64(r.Intn(3))), 0x100)
		t.pushU(0)
		t.op(0x55) // slot 0 <- result
		t.op(0x3d)
		t.pushU(9)
		t.op(0x55) // slot 9 <- RETURNDATASIZE
		switch r.Intn(4) {
		case 0:
			t.op(0x60, 0x00, 0x60, 0x00, 0xfd)
			return t.finish(), "nested(" + n + ")-revert"
		case 1:
			t.op(0xfe)
			return t.finish(), "nested(" + n + ")-invalid"
		}
		rt, m := createRuntime(r)
		retRuntime(rt)
		return t.finish(), "nested(" + n + ")-" + m
	case 13: // calls a third contract with value, then deploys
		t.pushU(0)
		t.pushU(0)
		t.pushU(0)
		t.pushU(0)
		t.pushU(uint64(r.Intn(3)))
		t.pushN(20, addrWord(createThird))
		t.pushU(30000)
		t.op(0xf1, 0x50)
		rt, n := createRuntime(r)
		retRuntime(rt)
		return t.finish(), "callsOut-" + n
	case 14: // stack underflow
		t.op(0x01)
		return t.finish(), "underflow"
	default: // empty init code
		return nil, "emptyInit"
	}
}

// one creation inside the factory and the record of what came back, at mem[out .. out+0xa0)
func createBlock(t *tailAsm, r *rand.Rand, op byte, init []byte, value, salt *big.Int, out uint64) {
	t.emitCreate(op, init, value, salt, 0x800)
	t.op(0x80) // DUP1
	t.pushU(out)
	t.op(0x52)
	t.op(0x3d)
	t.pushU(out + 0x20)
	t.op(0x52)
	if r.Intn(3) == 0 { // RETURNDATACOPY(out+0x40, 0, min(4, size)) — 4 bytes exist only after revertData; else copy 0
		t.pushU(uint64([]int{0, 0, 0, 0, 0, 0, 4, 1}[r.Intn(8)]))
		t.pushU(0)
		t.pushU(out + 0x40)
		t.op(0x3e)
	}
	// if the result is not 0: look at the new account and call it
	skip := t.newLabel()
	t.op(0x80, 0x15)
	t.pushLabel(skip)
	t.op(0x57)
	if r.Intn(2) == 0 {
		t.op(0x80, []byte{0x3b, 0x3f, 0x31}[r.Intn(3)]) // EXTCODESIZE / EXTCODEHASH / BALANCE
		t.pushU(out + 0x60)
		t.op(0x52)
	}
	if r.Intn(2) == 0 {
		t.pushU(0x20)
		t.pushU(out + 0x80)
		t.pushU(0)
		t.pushU(0)
		t.pushU(uint64(r.Intn(2)))
		t.op(0x85) // DUP6: the address
		t.pushU(60000)
		t.op(0xf1)
		t.op(0x50)
	}
	t.label(skip)
	t.op(0x50) // POP the result
}

func GenCreateScenario(id int64, r *rand.Rand) *VMCase {
	c := baseCase(id, "create", r)
	c.Value = 0
	c.PreStorage = nil
	c.Gas = []int64{1000000, 1000000, 600000, 400000, 100000, int64(33000 + r.Intn(60000))}[r.Intn(6)]
	f := newTailAsm()
	nCreates := 1 + r.Intn(3)
	var notes []string
	salts := []*big.Int{big.NewInt(0), big.NewInt(1), big.NewInt(1), randWord(r)}
	loop := r.Intn(8) == 0
	if loop { // the same creation three times in a loop: the sequence number advances, a CREATE2 collides with itself
		nCreates = 1
	}
	var top int
	if loop {
		f.pushU(3)
		top = f.newLabel()
		f.label(top)
	}
	for i := 0; i < nCreates; i++ {
		op := byte(0xf0)
		if r.Intn(3) == 0 {
			op = 0xf5
		}
		init, n := createInit(r, 2)
		val := []*big.Int{big.NewInt(0), big.NewInt(0), big.NewInt(5), big.NewInt(100), big.NewInt(101), pow2(63), bigAdd(pow2(256), -1)}[r.Intn(7)]
		if r.Intn(4) != 0 && val.Cmp(big.NewInt(100)) > 0 {
			val = big.NewInt(int64(r.Intn(60)))
		}
		salt := salts[r.Intn(len(salts))]
		createBlock(f, r, op, init, val, salt, 0x100+uint64(i)*0xa0)
		notes = append(notes, fmt.Sprintf("%x:%s:v%s", op, n, val.String()))
	}
	if loop {
		f.pushU(1)
		f.op(0x90, 0x03, 0x80) // SWAP1 SUB DUP1
		f.pushLabel(top)
		f.op(0x57)
		f.op(0x50)
	}
	switch r.Intn(8) {
	case 0:
		f.pushU(0x20)
		f.pushU(0x100)
		f.op(0xfd) // the factory itself reverts after creating
		notes = append(notes, "factoryReverts")
	case 1:
		f.op(0xfe)
		notes = append(notes, "factoryInvalid")
	default:
		f.pushU(0x1e0)
		f.pushU(0x100)
		f.op(0xf3)
	}
	factory := f.finish()
	c.Extra = append(c.Extra, VMAccount{Addr: createThird, Code: []byte{0x00}, Balance: 3})
	callFactory := func(o *vmAsm, op byte, to crypto.Address, retAt uint64) {
		o.pushU(0x1e0)
		o.pushU(retAt)
		o.pushU(0)
		o.pushU(0)
		if op == 0xf1 || op == 0xf2 {
			o.pushU(0)
		}
		o.pushN(20, addrWord(to))
		if r.Intn(4) == 0 {
			o.op(0x5a) // GAS (such programs are not compared with the specification mode, which runs with unlimited gas)
		} else {
			o.pushU(0xffffffffff) // more than there is: all but one 64th
		}
		o.op(op)
	}
	wrapper := r.Intn(10)
	wname := ""
	switch wrapper {
	case 0, 1, 2:
		wname = "direct"
		c.Code = factory
		c.CalleeBal = 100
	case 3, 4, 5, 6:
		op := []byte{0xf1, 0xfa, 0xf4, 0xf2}[wrapper-3]
		wname = map[byte]string{0xf1: "call", 0xfa: "static", 0xf4: "delegate", 0xf2: "callcode"}[op]
		c.Extra = append(c.Extra, VMAccount{Addr: createFactory, Code: factory, Balance: 100})
		c.CalleeBal = 100
		o := newAsm()
		callFactory(o, op, createFactory, 0x20)
		o.pushU(0)
		o.op(0x52)
		o.pushU(0x200)
		o.pushU(0)
		o.op(0xf3)
		c.Code = o.bytes()
	case 7:
		wname = "twice"
		c.Extra = append(c.Extra, VMAccount{Addr: createFactory, Code: factory, Balance: 100})
		o := newAsm()
		callFactory(o, 0xf1, createFactory, 0x20)
		o.op(0x50)
		callFactory(o, 0xf1, createFactory, 0x220)
		o.pushU(0)
		o.op(0x52)
		o.pushU(0x400)
		o.pushU(0)
		o.op(0xf3)
		c.Code = o.bytes()
	default:
		// main -> mid -> factory; mid reverts (or INVALID) after the factory returned: everything created below is discarded
		wname = "discarded"
		c.Extra = append(c.Extra, VMAccount{Addr: createFactory, Code: factory, Balance: 100})
		m := newAsm()
		callFactory(m, 0xf1, createFactory, 0x20)
		m.op(0x50)
		if r.Intn(3) == 0 {
			m.op(0xfe)
		} else {
			m.pushU(0x1e0)
			m.pushU(0x20)
			m.op(0xfd)
		}
		c.Extra = append(c.Extra, VMAccount{Addr: createMid, Code: m.bytes(), Balance: 10})
		o := newAsm()
		callFactory(o, 0xf1, createMid, 0x20)
		o.pushU(0)
		o.op(0x52)
		// after the discarded creation, create once more from the main contract: the sequence number has moved on
		o.pushU(0)
		o.pushU(0)
		o.pushU(0)
		o.op(0xf0)
		o.pushU(0x220)
		o.op(0x52)
		o.pushU(0x240)
		o.pushU(0)
		o.op(0xf3)
		c.Code = o.bytes()
		c.CalleeBal = 7
	}
	c.Note = fmt.Sprintf("create2:%s loop=%v %v", wname, loop, notes)
	c.UsesExt = true
	return c
}

// GenCreateMeta: factories that carry contract metadata (acm.Account.ContractMeta, at chain level MsgDeploy.Meta): a list of the
// code hashes of the contracts they may create.  InitChildCode checks the constructor's returned code against the list AFTER
// the constructor has run; a refusal (InvalidContractCode) goes into the creator's error sink.  By construction: after a
// refused child there is no account at the derived address, no storage of it, and the factory still holds its endowment;
// after a permitted one the account exists with the code, the constructor's storage and the endowment.
func GenCreateMeta(id int64, r *rand.Rand) *VMCase {
	c := baseCase(id, "create", r)
	c.Value = 0
	c.PreStorage = nil
	c.Gas = 1000000
	nested := r.Intn(2) == 0
	factoryAddr := VMCallee
	if nested {
		factoryAddr = createFactory
	}
	derived := DerivedAddress(factoryAddr, 1)
	rtA := []byte{0x60, 0x2a, 0x60, 0x00, 0x52, 0x60, 0x20, 0x60, 0x00, 0xf3} // returns 42
	rtB := []byte{0x60, 0x2b, 0x60, 0x00, 0x52, 0x60, 0x20, 0x60, 0x00, 0xf3} // returns 43
	lib := append(append([]byte{0x73}, derived.Bytes()...), 0x50, 0x00)       // PUSH20 <own address> POP STOP: a "library"
	libZero := append(append([]byte{0x73}, make([]byte, 20)...), 0x50, 0x00)  // … as its metadata hash sees it
	if r.Intn(4) == 0 {
		return genCreateMetaGenerations(c, r, nested, factoryAddr)
	}
	kind := r.Intn(6)
	var runtime []byte
	var meta [][]byte
	allowed := true
	kname := ""
	switch kind {
	case 0:
		runtime, meta, kname = rtA, [][]byte{crypto.Keccak256(rtA)}, "listed"
	case 1:
		runtime, meta, allowed, kname = rtB, [][]byte{crypto.Keccak256(rtA)}, false, "notListed"
	case 2:
		runtime, meta, kname = rtB, [][]byte{crypto.Keccak256(rtA), crypto.Keccak256(rtB)}, "listedSecond"
	case 3:
		runtime, meta, kname = lib, [][]byte{crypto.Keccak256(libZero)}, "libraryDeployHash"
	case 4:
		runtime, meta, allowed, kname = []byte{}, [][]byte{crypto.Keccak256(rtA)}, false, "emptyCodeNotListed"
	default:
		runtime, meta, kname = rtB, nil, "noMetadata"
	}
	// constructor: SSTORE(0, 1); return runtime
	t := newTailAsm()
	t.op(0x60, 0x01, 0x60, 0x00, 0x55)
	l := t.data(runtime)
	t.pushU(uint64(len(runtime)))
	t.pushLabel(l)
	t.pushU(0)
	t.op(0x39)
	t.pushU(uint64(len(runtime)))
	t.pushU(0)
	t.op(0xf3)
	init := t.finish()
	value := uint64([]int{0, 5, 100}[r.Intn(3)])
	f := newTailAsm()
	f.emitCreate(0xf0, init, new(big.Int).SetUint64(value), big.NewInt(0), 0x800)
	f.pushU(0x40)
	f.op(0x52)
	f.op(0x3d)
	f.pushU(0x60)
	f.op(0x52)
	f.pushU(0x40)
	f.pushU(0x40)
	f.op(0xf3)
	factory := f.finish()
	if nested {
		c.Extra = append(c.Extra, VMAccount{Addr: createFactory, Code: factory, Balance: 100, Meta: meta})
		o := newAsm()
		o.pushU(0x40)
		o.pushU(0)
		o.pushU(0)
		o.pushU(0)
		o.pushU(0)
		o.pushN(20, addrWord(createFactory))
		o.pushU(0xffffffffff)
		o.op(0xf1, 0x50)
		o.pushU(0x40)
		o.pushU(0)
		o.op(0xf3)
		c.Code = o.bytes()
	} else {
		c.Code = factory
		c.CalleeBal = 100
		c.CalleeMeta = meta
	}
	c.Note = fmt.Sprintf("createMeta:%s value=%d nested=%v", kname, value, nested)
	c.UsesExt = true
	c.Expect = fmt.Sprintf(`{"meta":true,"kind":"%s","derived":"%x","allowed":%v,"runtime":"%x","value":%d,"factory":"%x","factory_balance":100,"nested":%v}`,
		kname, derived.Bytes(), allowed, runtime, value, factoryAddr.Bytes(), nested)
	return c
}

// creatorRuntime: a deployed contract that, when called, creates a contract from `init` and returns the result word
func creatorRuntime(init []byte) []byte {
	t := newTailAsm()
	t.emitCreate(0xf0, init, big.NewInt(0), big.NewInt(0), 0x100)
	t.pushU(0)
	t.op(0x52)
	t.pushU(0x20)
	t.pushU(0)
	t.op(0xf3)
	return t.finish()
}

// returnsRuntime: a constructor that deploys `rt`
func returnsRuntime(rt []byte) []byte {
	t := newTailAsm()
	l := t.data(rt)
	t.pushU(uint64(len(rt)))
	t.pushLabel(l)
	t.pushU(0)
	t.op(0x39)
	t.pushU(uint64(len(rt)))
	t.pushU(0)
	t.op(0xf3)
	return t.finish()
}

// Metadata over generations (compared with the interpreter model only): the factory (which carries the list) creates a child
// whose deployed code creates a grandchild when called — checked against the FACTORY's list, the child's forebear — and,
// optionally, the grandchild's code creates a great-grandchild when called: InitChildCode records `ancestor.Forebear` of the
// replaced ancestor, so the grandchild has no forebear and the fourth generation is not checked against anything.
func genCreateMetaGenerations(c *VMCase, r *rand.Rand, nested bool, factoryAddr crypto.Address) *VMCase {
	rtB := []byte{0x60, 0x2b, 0x60, 0x00, 0x52, 0x60, 0x20, 0x60, 0x00, 0xf3}
	three := r.Intn(2) == 0
	grandRt := rtB
	if three {
		grandRt = creatorRuntime(returnsRuntime(rtB)) // the grandchild itself creates (a contract with code rtB) when called
	}
	childRt := creatorRuntime(returnsRuntime(grandRt))
	meta := [][]byte{crypto.Keccak256(childRt)}
	listGrand := r.Intn(2) == 0
	if listGrand {
		meta = append(meta, crypto.Keccak256(grandRt))
	}
	f := newTailAsm()
	f.emitCreate(0xf0, returnsRuntime(childRt), big.NewInt(0), big.NewInt(0), 0x800)
	// CALL(child): mem[0x20] <- the grandchild's address
	f.pushU(0x20)
	f.pushU(0x20)
	f.pushU(0)
	f.pushU(0)
	f.pushU(0)
	f.op(0x85) // DUP6: the child
	f.pushU(0xffffffffff)
	f.op(0xf1)
	f.pushU(0x40)
	f.op(0x52) // mem[0x40] <- success flag
	f.pushU(0)
	f.op(0x52) // mem[0] <- the child's address
	if three {
		// CALL(grandchild): mem[0x60] <- the great-grandchild's address
		f.pushU(0x20)
		f.pushU(0x60)
		f.pushU(0)
		f.pushU(0)
		f.pushU(0)
		f.pushU(0x20)
		f.op(0x51) // MLOAD: the grandchild
		f.pushU(0xffffffffff)
		f.op(0xf1)
		f.pushU(0x80)
		f.op(0x52)
	}
	f.pushU(0xa0)
	f.pushU(0)
	f.op(0xf3)
	factory := f.finish()
	if nested {
		c.Extra = append(c.Extra, VMAccount{Addr: createFactory, Code: factory, Balance: 100, Meta: meta})
		o := newAsm()
		o.pushU(0xa0)
		o.pushU(0)
		o.pushU(0)
		o.pushU(0)
		o.pushU(0)
		o.pushN(20, addrWord(createFactory))
		o.pushU(0xffffffffff)
		o.op(0xf1, 0x50)
		o.pushU(0xa0)
		o.pushU(0)
		o.op(0xf3)
		c.Code = o.bytes()
	} else {
		c.Code = factory
		c.CalleeBal = 100
		c.CalleeMeta = meta
	}
	c.Note = fmt.Sprintf("createMetaGenerations: grandchildListed=%v generations=%d nested=%v", listGrand, map[bool]int{false: 3, true: 4}[three], nested)
	c.UsesExt = true
	return c
}

// GenCreateSenders: the same factory is called by two different senders in two transactions.  At chain level x/cvm/keeper.Tx
// hands the CVM the SENDER's account sequence number (8 bytes, little endian) as its nonce option and nothing else of the
// sender: CREATE derives sha256(creator, nonce, counter).  Two senders whose sequence numbers are equal therefore make the
// factory derive the same address; in the EVM the address depends on the creator's own nonce and no two creations collide.
// By construction (EVM): the second sender's call succeeds like the first and deploys at another address.
func GenCreateSenders(id int64, r *rand.Rand) *VMCase {
	c := baseCase(id, "create", r)
	c.Value = 0
	c.PreStorage = nil
	c.Gas = 1000000
	seq := uint64(r.Intn(6))
	le := func(v uint64) []byte {
		b := make([]byte, 8)
		for i := 0; i < 8; i++ {
			b[i] = byte(v >> (8 * uint(i)))
		}
		return b
	}
	c.Nonce = le(seq)
	c.PriorNonce = le(seq)
	if r.Intn(4) == 0 {
		c.PriorNonce = le(seq + 1 + uint64(r.Intn(3)))
	}
	c.Prior = true
	nested := r.Intn(2) == 0
	init := []byte{0x60, 0x01, 0x60, 0x0c, 0x60, 0x00, 0x39, 0x60, 0x01, 0x60, 0x00, 0xf3, 0x00} // deploys "00"
	f := newTailAsm()
	f.emitCreate(0xf0, init, big.NewInt(0), big.NewInt(0), 0x800)
	f.pushU(0x40)
	f.op(0x52)
	f.op(0x3d)
	f.pushU(0x60)
	f.op(0x52)
	f.pushU(0x40)
	f.pushU(0x40)
	f.op(0xf3)
	factory := f.finish()
	if nested {
		c.Extra = append(c.Extra, VMAccount{Addr: createFactory, Code: factory, Balance: 100})
		o := newAsm()
		o.pushU(0x40)
		o.pushU(0)
		o.pushU(0)
		o.pushU(0)
		o.pushU(0)
		o.pushN(20, addrWord(createFactory))
		o.pushU(0xffffffffff)
		o.op(0xf1, 0x50)
		o.pushU(0x40)
		o.pushU(0)
		o.op(0xf3)
		c.Code = o.bytes()
	} else {
		c.Code = factory
		c.CalleeBal = 100
	}
	c.Note = fmt.Sprintf("createSenders: sequence=%d prior=%x nested=%v", seq, c.PriorNonce, nested)
	c.UsesExt = true
	c.Expect = fmt.Sprintf(`{"senders":true,"same_nonce":%v,"nested":%v}`, string(c.Nonce) == string(c.PriorNonce), nested)
	return c
}

// GenCreate: half of the cases are the by-construction factory programs (unchanged for their ids), half the scenarios above.
// The choice is drawn from a stream of its own so that an id that stays a factory case names the same program as before.
func GenCreate(id int64) *VMCase {
	r2 := rand.New(rand.NewSource(id*104729 + 71))
	if r2.Intn(2) == 0 {
		return GenCreateFactory(id)
	}
	switch r2.Intn(12) {
	case 0, 1:
		return GenCreateMeta(id, r2)
	case 2:
		return GenCreateSenders(id, r2)
	}
	return GenCreateScenario(id, r2)
}

func init() { VMGenerators["create"] = GenCreate }
