package sim

// A tiny EVM assembler with labels, and the operand pools the generators draw from.

import (
	"math/big"
	"math/rand"

	"github.com/hyperledger/burrow/binary"
)

type vmAsm struct {
	code   []byte
	labels map[int]int // label -> pc of its JUMPDEST
	fixups [][2]int    // (position of the 2 immediate bytes, label)
	nlab   int
}

func newAsm() *vmAsm { return &vmAsm{labels: map[int]int{}} }

func (a *vmAsm) op(bs ...byte) { a.code = append(a.code, bs...) }

// push v with the shortest PUSHn (PUSH1 0 for zero)
func (a *vmAsm) push(v *big.Int) {
	b := v.Bytes()
	if len(b) == 0 {
		b = []byte{0}
	}
	if len(b) > 32 {
		b = b[len(b)-32:]
	}
	a.op(byte(0x60 + len(b) - 1))
	a.op(b...)
}

// push v with exactly PUSHn (left padded / truncated)
func (a *vmAsm) pushN(n int, v *big.Int) {
	b := v.Bytes()
	if len(b) > n {
		b = b[len(b)-n:]
	}
	a.op(byte(0x60 + n - 1))
	for i := len(b); i < n; i++ {
		a.op(0)
	}
	a.op(b...)
}

func (a *vmAsm) pushU(v uint64) { a.push(new(big.Int).SetUint64(v)) }

func (a *vmAsm) newLabel() int { a.nlab++; return a.nlab }

func (a *vmAsm) pushLabel(l int) {
	a.op(0x61, 0, 0)
	a.fixups = append(a.fixups, [2]int{len(a.code) - 2, l})
}

func (a *vmAsm) label(l int) {
	a.labels[l] = len(a.code)
	a.op(0x5b)
}

func (a *vmAsm) bytes() []byte {
	for _, f := range a.fixups {
		pc := a.labels[f[1]]
		a.code[f[0]] = byte(pc >> 8)
		a.code[f[0]+1] = byte(pc)
	}
	return a.code
}

func pow2(n uint) *big.Int { return new(big.Int).Lsh(big.NewInt(1), n) }
func bigAdd(a *big.Int, d int64) *big.Int {
	return new(big.Int).Add(a, big.NewInt(d))
}

var vmBoundary = func() []*big.Int {
	out := []*big.Int{}
	for _, v := range []int64{0, 1, 2, 3, 7, 8, 15, 16, 30, 31, 32, 33, 63, 64, 65, 127, 128, 255, 256, 257, 0xffff, 0x10000} {
		out = append(out, big.NewInt(v))
	}
	for _, n := range []uint{31, 32, 63, 64, 127, 128, 160, 248, 255, 256} {
		p := pow2(n)
		out = append(out, bigAdd(p, -2), bigAdd(p, -1))
		if n < 256 {
			out = append(out, p, bigAdd(p, 1))
		}
	}
	return out
}()

// memory offsets / lengths that straddle every limit the implementation has
// (uint64, int32 indexing, the 16 MiB cap, makeslice's 2^48 limit) and are cheap to run
var vmMemBig = func() []*big.Int {
	out := []*big.Int{}
	for _, n := range []uint{16, 24, 63, 64} {
		p := pow2(n)
		for _, d := range []int64{-65, -64, -33, -32, -31, -1, 0, 1, 32} {
			out = append(out, bigAdd(p, d))
		}
	}
	out = append(out, pow2(25), bigAdd(pow2(26), 1), bigAdd(pow2(48), 1), bigAdd(pow2(48), 64), pow2(255),
		bigAdd(pow2(256), -1), bigAdd(pow2(256), -32))
	return out
}()

// sizes between the 16 MiB cap and 2^48: the implementation allocates (and zeroes) that
// many bytes BEFORE it charges gas, so each of these costs seconds or kills the process
var vmMemHuge = []*big.Int{bigAdd(pow2(31), -33), bigAdd(pow2(31), -1), pow2(31), bigAdd(pow2(32), -1), bigAdd(pow2(32), 1),
	pow2(36), big.NewInt(0x1FFFFFFFE0), big.NewInt(0x1FFFFFFFE1), pow2(40), pow2(47), pow2(48)}

func randWord(r *rand.Rand) *big.Int {
	switch r.Intn(10) {
	case 0, 1, 2, 3:
		return vmBoundary[r.Intn(len(vmBoundary))]
	case 4, 5:
		return big.NewInt(int64(r.Intn(300)))
	case 6:
		return new(big.Int).SetUint64(r.Uint64())
	case 7: // negative small in two's complement
		return new(big.Int).Sub(pow2(256), big.NewInt(int64(1+r.Intn(300))))
	default:
		b := make([]byte, 32)
		r.Read(b)
		if r.Intn(3) == 0 { // sparse
			for i := range b {
				if r.Intn(3) != 0 {
					b[i] = 0
				}
			}
		}
		return new(big.Int).SetBytes(b)
	}
}

func randSmallOff(r *rand.Rand) *big.Int {
	switch r.Intn(4) {
	case 0:
		return big.NewInt(int64(32 * r.Intn(6)))
	case 1:
		return big.NewInt(int64([]int{0, 1, 31, 32, 33, 63, 64, 65, 95, 96, 97}[r.Intn(11)]))
	default:
		return big.NewInt(int64(r.Intn(200)))
	}
}

// randMem returns an offset/length operand and whether it is in the "huge allocation" class
func randMem(r *rand.Rand) (*big.Int, bool) {
	x := r.Intn(1000)
	switch {
	case x < 780:
		return randSmallOff(r), false
	case x < 987:
		return vmMemBig[r.Intn(len(vmMemBig))], false
	case x < 990:
		return vmMemHuge[r.Intn(len(vmMemHuge))], true
	default:
		return randWord(r), false
	}
}

func word(v *big.Int) binary.Word256 {
	return binary.LeftPadWord256(new(big.Int).And(v, bigAdd(pow2(256), -1)).Bytes())
}
