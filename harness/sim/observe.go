package sim

import (
	"bufio"
	"bytes"
	"encoding/base64"
	"encoding/binary"
	"encoding/json"
	"fmt"
	"io"
	"math/big"
	"os"
	"regexp"
	"sort"
	"strings"
	"time"

	abci "github.com/tendermint/tendermint/abci/types"

	sdk "github.com/cosmos/cosmos-sdk/types"
	authtypes "github.com/cosmos/cosmos-sdk/x/auth/types"
	banktypes "github.com/cosmos/cosmos-sdk/x/bank/types"
	distrtypes "github.com/cosmos/cosmos-sdk/x/distribution/types"
	govtypes "github.com/cosmos/cosmos-sdk/x/gov/types"
	stakingtypes "github.com/cosmos/cosmos-sdk/x/staking/types"

	"github.com/certikfoundation/shentu/app"
	appparams "github.com/certikfoundation/shentu/app/params"
	vesting "github.com/certikfoundation/shentu/x/auth/types"
	certtypes "github.com/certikfoundation/shentu/x/cert/types"
	cvmtypes "github.com/certikfoundation/shentu/x/cvm/types"
	oracletypes "github.com/certikfoundation/shentu/x/oracle/types"
	shieldtypes "github.com/certikfoundation/shentu/x/shield/types"
)

func patchDefaultGenesis(c *Chain, enc appparams.EncodingConfig, gs app.GenesisState) {
	cfg := c.Cfg
	// shield admin
	var shg shieldtypes.GenesisState
	enc.Marshaler.MustUnmarshalJSON(gs[shieldtypes.ModuleName], &shg)
	shg.ShieldAdmin = c.Accts[cfg.AdminIdx].Addr.String()
	gs[shieldtypes.ModuleName] = enc.Marshaler.MustMarshalJSON(&shg)
	// certifiers
	var cg certtypes.GenesisState
	enc.Marshaler.MustUnmarshalJSON(gs[certtypes.ModuleName], &cg)
	cg.Certifiers = nil
	for i := 0; i < cfg.NCert; i++ {
		a := c.Accts[cfg.NVal+i].Addr
		cg.Certifiers = append(cg.Certifiers, certtypes.Certifier{Address: a.String(), Alias: fmt.Sprintf("cert%d", i), Proposer: a.String(), Description: "genesis"})
	}
	gs[certtypes.ModuleName] = enc.Marshaler.MustMarshalJSON(&cg)
}

// ---------------------------------------------------------------- recorder

// Recorder writes the trace: one JSON object per line.
type Recorder struct {
	w      *bufio.Writer
	last   map[string]string // module -> last emitted JSON
	pend   map[string]json.RawMessage
	Mods   []string // modules to observe
	NLines int
}

func NewRecorder(w io.Writer, mods []string) *Recorder {
	return &Recorder{w: bufio.NewWriterSize(w, 1<<20), last: map[string]string{}, Mods: mods}
}

func (r *Recorder) Flush() { r.w.Flush() }

func (r *Recorder) emit(m map[string]interface{}) {
	bz, err := json.Marshal(m)
	if err != nil {
		panic(err)
	}
	r.w.Write(bz)
	r.w.WriteByte('\n')
	r.NLines++
}

// Reset forgets the last observation (start of a new history).
func (r *Recorder) Reset() { r.last = map[string]string{}; r.pend = nil }

// snapshot observes the modules now and remembers the result for the next emit.
func (r *Recorder) snapshot(c *Chain) {
	r.pend = r.observe(c)
}

func (r *Recorder) observe(c *Chain) map[string]json.RawMessage {
	out := map[string]json.RawMessage{}
	ctx, _ := c.Ctx().CacheContext()
	for _, m := range r.Mods {
		var v interface{}
		pi := catch(func() { v = observeModule(c, ctx, m) })
		if pi != nil {
			v = map[string]interface{}{"observe_panic": pi.Value}
		}
		bz, err := json.Marshal(v)
		if err != nil {
			panic(err)
		}
		if r.last[m] != string(bz) {
			r.last[m] = string(bz)
			out[m] = bz
		}
	}
	return out
}

func (r *Recorder) takeState(c *Chain) map[string]json.RawMessage {
	if r.pend != nil {
		p := r.pend
		r.pend = nil
		return p
	}
	return r.observe(c)
}

// Genesis writes the first line of a history.
func (r *Recorder) Genesis(c *Chain, extra map[string]interface{}) {
	r.Reset()
	names := map[string]string{}
	for _, a := range c.Accts {
		names[a.Name] = Hex(a.Addr)
	}
	for _, mn := range []string{authtypes.FeeCollectorName, distrtypes.ModuleName, "mint", stakingtypes.BondedPoolName, stakingtypes.NotBondedPoolName, govtypes.ModuleName, oracletypes.ModuleName, shieldtypes.ModuleName, cvmtypes.ModuleName} {
		names["mod."+mn] = Hex(authtypes.NewModuleAddress(mn))
	}
	m := map[string]interface{}{"k": "genesis", "seed": c.Cfg.Seed, "h": c.Height, "t": nsStr(c.Time), "names": names, "st": r.takeState(c)}
	for k, v := range extra {
		m[k] = v
	}
	r.emit(m)
}

// Tx writes one transaction with its result and the changed module states.
func (r *Recorder) Tx(c *Chain, signer string, msgs []map[string]interface{}, res TxResult, extra map[string]interface{}) {
	m := map[string]interface{}{"k": "tx", "signer": signer, "m": msgs, "code": res.Code, "cs": res.Codespace,
		"gasWanted": res.GasWanted, "gasUsed": res.GasUsed, "h": c.Height, "t": nsStr(c.Time), "st": r.takeState(c)}
	// contract LOG events and internal calls that made it into the transaction's events
	logs := []interface{}{}
	for _, ev := range res.Events {
		if ev.Type == cvmtypes.EventTypeCVMEvent {
			for _, a := range ev.Attributes {
				if string(a.Key) == "address" {
					logs = append(logs, hexOfBech(string(a.Value)))
				}
			}
		}
	}
	m["logs"] = logs
	if res.Code != 0 {
		l := res.Log
		if len(l) > 160 && os.Getenv("VERIF_TRACE") == "" {
			l = l[:160]
		}
		m["log"] = l
	}
	for k, v := range extra {
		m[k] = v
	}
	r.emit(m)
}

func (r *Recorder) Block(c *Chain, kind string, res *abci.ResponseEndBlock, pi *PanicInfo, appHash []byte) {
	m := map[string]interface{}{"k": kind, "h": c.Height, "t": nsStr(c.Time)}
	if pi != nil {
		m["panic"] = map[string]interface{}{"value": trunc(pi.Value, 200), "site": pi.Site}
	} else {
		m["st"] = r.takeState(c)
	}
	if res != nil {
		var vus []interface{}
		for _, vu := range res.ValidatorUpdates {
			vus = append(vus, map[string]interface{}{"pk": Hex(vu.PubKey.GetEd25519()), "power": vu.Power})
		}
		if vus == nil {
			vus = []interface{}{}
		}
		m["vu"] = vus
	}
	if appHash != nil {
		m["apphash"] = Hex(appHash)
	}
	if kind == "begin" && len(c.Blocks) > 0 && len(c.Blocks[len(c.Blocks)-1].Evidence) > 0 {
		m["evidence"] = len(c.Blocks[len(c.Blocks)-1].Evidence) // double-sign evidence was handled by this BeginBlock
	}
	r.emit(m)
}

// Note writes a free-form line (history separators, generator statistics).
func (r *Recorder) Note(m map[string]interface{}) { r.emit(m) }

func trunc(s string, n int) string {
	if len(s) > n {
		return s[:n]
	}
	return s
}

func nsStr(t time.Time) string {
	x := new(big.Int).Mul(big.NewInt(t.Unix()), big.NewInt(1000000000))
	x.Add(x, big.NewInt(int64(t.Nanosecond())))
	return x.String()
}

// ---------------------------------------------------------------- observation

func CoinsJ(cs sdk.Coins) []interface{} {
	out := []interface{}{}
	for _, c := range cs {
		out = append(out, []interface{}{c.Denom, c.Amount.String()})
	}
	return out
}

func decCoinsJ(cs sdk.DecCoins) []interface{} {
	out := []interface{}{}
	for _, c := range cs {
		out = append(out, []interface{}{c.Denom, c.Amount.String()})
	}
	return out
}

func hexOfBech(s string) string {
	if a, err := sdk.AccAddressFromBech32(s); err == nil {
		return Hex(a)
	}
	if a, err := sdk.ValAddressFromBech32(s); err == nil {
		return Hex(a)
	}
	return s
}

var durRe = regexp.MustCompile(`^-?\d+(\.\d+)?s$`)

// canon rewrites bech32 addresses to hex, RFC3339 times and proto durations to
// nanosecond decimal strings, so that the Lean side needs no text parsing.
func canon(v interface{}) interface{} {
	switch x := v.(type) {
	case map[string]interface{}:
		for k, e := range x {
			x[k] = canon(e)
		}
		return x
	case []interface{}:
		for i, e := range x {
			x[i] = canon(e)
		}
		return x
	case string:
		if (strings.HasPrefix(x, "certik") || strings.HasPrefix(x, "CERTIK")) && len(x) > 40 { // bech32 may be written in upper case
			return hexOfBech(x)
		}
		if len(x) >= 20 && len(x) <= 40 && x[4] == '-' && x[10] == 'T' {
			if t, err := time.Parse(time.RFC3339Nano, x); err == nil {
				return nsStr(t)
			}
		}
		if durRe.MatchString(x) {
			if d, err := time.ParseDuration(x); err == nil {
				return fmt.Sprint(d.Nanoseconds())
			}
			// large durations: seconds * 1e9 via big
			f, _, err := big.ParseFloat(strings.TrimSuffix(x, "s"), 10, 200, big.ToNearestEven)
			if err == nil {
				f.Mul(f, big.NewFloat(1e9))
				i, _ := f.Int(nil)
				return i.String()
			}
		}
		return x
	case json.Number:
		return x.String()
	default:
		return v
	}
}

func exportJ(c *Chain, ctx sdk.Context, mod string) interface{} {
	raw := c.App.VerifModuleManager().Modules[mod].ExportGenesis(ctx, c.App.VerifAppCodec())
	dec := json.NewDecoder(bytes.NewReader(raw))
	dec.UseNumber()
	var v interface{}
	if err := dec.Decode(&v); err != nil {
		panic(err)
	}
	return canon(v)
}

func modBal(c *Chain, ctx sdk.Context, name string) []interface{} {
	return CoinsJ(c.App.VerifBankKeeper().GetAllBalances(ctx, authtypes.NewModuleAddress(name)))
}

func observeModule(c *Chain, ctx sdk.Context, m string) interface{} {
	switch m {
	case "bank":
		bk := c.App.VerifBankKeeper()
		type ab struct {
			a string
			c sdk.Coins
		}
		acc := map[string]sdk.Coins{}
		bk.IterateAllBalances(ctx, func(a sdk.AccAddress, coin sdk.Coin) bool {
			if !coin.Amount.IsZero() {
				acc[Hex(a)] = acc[Hex(a)].Add(coin)
			}
			return false
		})
		var ks []string
		for k := range acc {
			ks = append(ks, k)
		}
		sort.Strings(ks)
		bal := []interface{}{}
		for _, k := range ks {
			bal = append(bal, []interface{}{k, CoinsJ(acc[k])})
		}
		return map[string]interface{}{"bal": bal, "supply": CoinsJ(bk.GetSupply(ctx).GetTotal())}
	case "vesting":
		out := []interface{}{}
		all := []interface{}{}
		c.App.VerifAccountKeeper().IterateAccounts(ctx, func(a authtypes.AccountI) bool {
			all = append(all, Hex(a.GetAddress()))
			if mva, ok := a.(*vesting.ManualVestingAccount); ok {
				out = append(out, map[string]interface{}{"addr": Hex(mva.GetAddress()), "ov": CoinsJ(mva.OriginalVesting), "vested": CoinsJ(mva.VestedCoins),
					"dv": CoinsJ(mva.DelegatedVesting), "df": CoinsJ(mva.DelegatedFree), "unlocker": hexOfBech(mva.Unlocker)})
			}
			return false
		})
		return map[string]interface{}{"mva": out, "accounts": all}
	case "oracle":
		k := c.App.VerifOracleKeeper()
		ops := []interface{}{}
		for _, o := range k.GetAllOperators(ctx) {
			ops = append(ops, map[string]interface{}{"addr": hexOfBech(o.Address), "proposer": hexOfBech(o.Proposer), "coll": CoinsJ(o.Collateral), "rew": CoinsJ(o.AccumulatedRewards)})
		}
		wds := []interface{}{}
		for _, w := range k.GetAllWithdraws(ctx) {
			wds = append(wds, map[string]interface{}{"addr": hexOfBech(w.Address), "amt": CoinsJ(w.Amount), "due": w.DueBlock})
		}
		tasks := []interface{}{}
		for _, t := range k.GetAllTasks(ctx) {
			rs := []interface{}{}
			for _, r := range t.Responses {
				rs = append(rs, map[string]interface{}{"op": hexOfBech(r.Operator), "score": r.Score.String(), "weight": r.Weight.String(), "reward": CoinsJ(r.Reward)})
			}
			tasks = append(tasks, map[string]interface{}{"contract": t.Contract, "function": t.Function, "begin": t.BeginBlock, "bounty": CoinsJ(t.Bounty),
				"expiration": nsStr(t.Expiration), "creator": hexOfBech(t.Creator), "responses": rs, "result": t.Result.String(), "closing": t.ClosingBlock,
				"waiting": t.WaitingBlocks, "status": int(t.Status)})
		}
		closing := []interface{}{}
		{
			store := ctx.KVStore(c.App.VerifStoreKey(oracletypes.StoreKey))
			it := sdk.KVStorePrefixIterator(store, oracletypes.ClosingTaskStoreKeyPrefix)
			for ; it.Valid(); it.Next() {
				key := it.Key()
				var ids oracletypes.TaskIDs
				c.App.VerifAppCodec().MustUnmarshalBinaryLengthPrefixed(it.Value(), &ids)
				l := []interface{}{}
				for _, id := range ids.TaskIds {
					l = append(l, []interface{}{id.Contract, id.Function})
				}
				closing = append(closing, []interface{}{int64(binary.LittleEndian.Uint64(key[1:9])), l})
			}
			it.Close()
			// by height: the store keeps this index under a little-endian key, so its own order is not the order of the heights
			// (nothing reads it in order: the end-blocker looks up the current height); heights around a power of 256 would
			// otherwise line up differently on a chain whose heights are shifted by the one block of the export convention
			sort.SliceStable(closing, func(i, j int) bool {
				return closing[i].([]interface{})[0].(int64) < closing[j].([]interface{})[0].(int64)
			})
		}
		tot, err := k.GetTotalCollateral(ctx)
		pp := k.GetLockedPoolParams(ctx)
		tp := k.GetTaskParams(ctx)
		return map[string]interface{}{"ops": ops, "wd": wds, "tasks": tasks, "closing": closing, "total": CoinsJ(tot), "total_missing": err != nil,
			"params": map[string]interface{}{"lock": pp.LockedInBlocks, "mincoll": pp.MinimumCollateral, "window": tp.AggregationWindow,
				"aggres": tp.AggregationResult.String(), "threshold": tp.ThresholdScore.String(), "eps1": tp.Epsilon1.String(), "eps2": tp.Epsilon2.String(),
				"expdur": fmt.Sprint(tp.ExpirationDuration.Nanoseconds())},
			"modbal": modBal(c, ctx, oracletypes.ModuleName)}
	case "shield":
		v := exportJ(c, ctx, "shield").(map[string]interface{})
		v["modbal"] = modBal(c, ctx, shieldtypes.ModuleName)
		bf := c.App.VerifShieldKeeper().GetBlockServiceFees(ctx)
		v["block_fees"] = map[string]interface{}{"native": decCoinsJ(bf.Native), "foreign": decCoinsJ(bf.Foreign)}
		return v
	case "gov":
		v := exportJ(c, ctx, "gov").(map[string]interface{})
		v["modbal"] = modBal(c, ctx, govtypes.ModuleName)
		return v
	case "cert":
		v := exportJ(c, ctx, "cert").(map[string]interface{})
		// the alias index is a store of its own (not exported): observe it directly
		aliases := []interface{}{}
		store := ctx.KVStore(c.App.VerifStoreKey(certtypes.StoreKey))
		it := sdk.KVStorePrefixIterator(store, certtypes.CertifierAliasesStoreKey())
		for ; it.Valid(); it.Next() {
			var cf certtypes.Certifier
			c.App.VerifAppCodec().MustUnmarshalBinaryLengthPrefixed(it.Value(), &cf)
			aliases = append(aliases, []interface{}{string(it.Key()[1:]), hexOfBech(cf.Address)})
		}
		it.Close()
		v["alias_index"] = aliases
		// every stored certificate must be retrievable through the module's own query paths
		unret := []interface{}{}
		ck := c.App.VerifCertKeeper()
		for _, cert := range ck.GetAllCertificates(ctx) {
			id := cert.CertificateId
			if got, err := ck.GetCertificateByID(ctx, id); err != nil || got.CertificateId != id {
				unret = append(unret, []interface{}{id, "by-id"})
			}
			has := func(cs []certtypes.Certificate) bool {
				for _, x := range cs {
					if x.CertificateId == id {
						return true
					}
				}
				return false
			}
			if !has(ck.GetCertificatesByCertifier(ctx, cert.GetCertifier())) {
				unret = append(unret, []interface{}{id, "by-certifier"})
			}
			if _, cs, err := ck.GetCertificatesFiltered(ctx, certtypes.QueryCertificatesParams{Page: 1, Limit: 100000, Certifier: cert.GetCertifier()}); err != nil || !has(cs) {
				unret = append(unret, []interface{}{id, "by-certifier-filtered"})
			}
			if !has(ck.GetCertificatesByContent(ctx, cert.GetContentString())) {
				unret = append(unret, []interface{}{id, "by-content"})
			}
		}
		v["unretrievable"] = unret
		return v
	case "cvm":
		v := exportJ(c, ctx, "cvm").(map[string]interface{})
		// canonical renderings: lower-case hex addresses, hex storage values
		if cs, ok := v["contracts"].([]interface{}); ok {
			for _, ci := range cs {
				cm := ci.(map[string]interface{})
				if a, ok := cm["Address"].(string); ok {
					cm["Address"] = strings.ToLower(a)
				}
				if st, ok := cm["storage"].([]interface{}); ok {
					for _, si := range st {
						sm := si.(map[string]interface{})
						if k, ok := sm["key"].(string); ok {
							sm["key"] = strings.ToLower(k)
						}
						if val, ok := sm["value"].(string); ok {
							if bz, err := base64.StdEncoding.DecodeString(val); err == nil {
								sm["value"] = Hex(bz)
							}
						}
					}
				}
			}
		}
		return v
	case "staking":
		v := exportJ(c, ctx, "staking").(map[string]interface{})
		v["bonded_pool"] = modBal(c, ctx, stakingtypes.BondedPoolName)
		v["notbonded_pool"] = modBal(c, ctx, stakingtypes.NotBondedPoolName)
		// a flat view for the validator-set and unbonding monitors (C09)
		sk := c.App.VerifStakingKeeper()
		vals := []interface{}{}
		for _, val := range sk.GetAllValidators(ctx) {
			pk, err := val.ConsPubKey()
			pkh := ""
			if err == nil {
				pkh = Hex(pk.Bytes())
			}
			vals = append(vals, map[string]interface{}{"op": Hex(val.GetOperator()), "pk": pkh, "tokens": val.Tokens.String(), "status": int(val.Status),
				"jailed": val.Jailed, "shares": val.DelegatorShares.String(), "minself": val.MinSelfDelegation.String(),
				"unbonding_time": fmt.Sprint(val.UnbondingTime.UnixNano()), "power": val.ConsensusPower()})
		}
		v["vals2"] = vals
		ubds := []interface{}{}
		sk.IterateUnbondingDelegations(ctx, func(_ int64, ubd stakingtypes.UnbondingDelegation) bool {
			for _, e := range ubd.Entries {
				ubds = append(ubds, map[string]interface{}{"del": hexOfBech(ubd.DelegatorAddress), "val": hexOfBech(ubd.ValidatorAddress),
					"balance": e.Balance.String(), "t": fmt.Sprint(e.CompletionTime.UnixNano()), "h": e.CreationHeight})
			}
			return false
		})
		v["ubds2"] = ubds
		reds := []interface{}{}
		sk.IterateRedelegations(ctx, func(_ int64, red stakingtypes.Redelegation) bool {
			for _, e := range red.Entries {
				reds = append(reds, map[string]interface{}{"del": hexOfBech(red.DelegatorAddress), "src": hexOfBech(red.ValidatorSrcAddress), "dst": hexOfBech(red.ValidatorDstAddress),
					"t": fmt.Sprint(e.CompletionTime.UnixNano()), "h": e.CreationHeight})
			}
			return false
		})
		v["reds2"] = reds
		sp := sk.GetParams(ctx)
		v["max_validators"] = sp.MaxValidators
		v["unbonding_ns"] = fmt.Sprint(sp.UnbondingTime.Nanoseconds())
		return v
	case "distr":
		fp := c.App.VerifDistrKeeper().GetFeePool(ctx)
		return map[string]interface{}{"community": decCoinsJ(fp.CommunityPool)}
	}
	panic("unknown module " + m)
}

var _ = banktypes.ModuleName
