package sim

// Profile "blockhash" (C16, C20): what BLOCKHASH returns on the real chain, before and after an export / re-import.
//
// The harness's block headers name the hash of the previous block (LastBlockId), as Tendermint's do; x/cvm's begin-blocker
// stores it for the VM.  A contract that returns BLOCKHASH(NUMBER - k) is deployed and called with k = 1 … at several
// heights; then the state is exported, a fresh application is started from the export, and the same contract is called
// again for a height before the export.  One line per call: height, k, the word returned, the hash of block NUMBER - k.

import (
	"encoding/hex"
	"time"

	sdk "github.com/cosmos/cosmos-sdk/types"

	cvmtypes "github.com/certikfoundation/shentu/x/cvm/types"
)

func init() {
	Profiles["blockhash"] = Profile{Mods: nil, Run: BlockhashProfile}
}

// PUSH1 0 CALLDATALOAD NUMBER SUB BLOCKHASH PUSH1 0 MSTORE PUSH1 32 PUSH1 0 RETURN
var blockhashRuntime = []byte{0x60, 0x00, 0x35, 0x43, 0x03, 0x40, 0x60, 0x00, 0x52, 0x60, 0x20, 0x60, 0x00, 0xf3}

func callReturn(c *Chain, who int, callee sdk.AccAddress, data []byte) (string, uint32, string) {
	m := cvmtypes.NewMsgCall(c.Accts[who].Addr.String(), callee.String(), 0, data)
	res := c.Deliver(who, 3000000, DefaultFee, &m)
	if res.Code != 0 {
		return "", res.Code, trunc(res.Log, 120)
	}
	var md sdk.TxMsgData
	if md.Unmarshal(res.Data) == nil && len(md.Data) > 0 {
		var resp cvmtypes.MsgCallResponse
		if resp.Unmarshal(md.Data[0].Data) == nil {
			return hex.EncodeToString(resp.Result), 0, ""
		}
	}
	return "", 0, "undecodable"
}

func BlockhashProfile(seed int64, out *Recorder, nOps int) *Chain {
	rng := newRng(seed ^ 0xb10c)
	cfg := GenCfg{Seed: seed, H0: 5 + int64(rng.Intn(300)), T0: time.Unix(1600000000, 0).UTC(), NAcc: 4, NVal: 1, NCert: 1, AdminIdx: 3,
		Balance: 1000000000000, ValStake: []int64{1000000000}}
	quiet := NewRecorder(nopWriter{}, nil)
	c := NewChain(cfg, quiet)
	c.Rng = rng
	out.Reset()
	out.emit(D{"k": "genesis", "seed": seed, "h": cfg.H0, "t": nsStr(cfg.T0), "names": D{}, "profile": "blockhash", "st": D{}})
	if !c.Advance(5 * time.Second) {
		return c
	}
	m := cvmtypes.NewMsgDeploy(c.Accts[0].Addr.String(), 0, initCode(blockhashRuntime), "", nil, false, false)
	res := c.Deliver(0, 3000000, DefaultFee, &m)
	var addr sdk.AccAddress
	if res.Code == 0 {
		var md sdk.TxMsgData
		if md.Unmarshal(res.Data) == nil && len(md.Data) > 0 {
			var resp cvmtypes.MsgDeployResponse
			if resp.Unmarshal(md.Data[0].Data) == nil && len(resp.Result) == 20 {
				addr = sdk.AccAddress(resp.Result)
			}
		}
	}
	if addr == nil {
		out.emit(D{"k": "blockhash", "phase": "deploy", "h": c.Height, "code": res.Code, "log": trunc(res.Log, 120)})
		return c
	}
	ask := func(ch *Chain, phase string, k int64) {
		ret, code, log := callReturn(ch, 1, addr, word32(sdk.NewInt(k).BigInt().Bytes()))
		want := ""
		if n := ch.Height - k; n >= 1 && k >= 1 {
			want = hex.EncodeToString(BlockHashOf(n))
		}
		prev := ""
		if n := ch.Height - k - 1; n >= 1 {
			prev = hex.EncodeToString(BlockHashOf(n))
		}
		out.emit(D{"k": "blockhash", "phase": phase, "h": ch.Height, "arg": k, "ret": ret, "code": code, "log": log, "hash_of_block": want, "hash_of_previous_block": prev, "first": cfg.H0 + 1})
	}
	blocks := 4 + rng.Intn(6)
	for b := 0; b < blocks; b++ {
		if !c.Advance(time.Duration(1+rng.Intn(5)) * time.Second) {
			return c
		}
		for _, k := range []int64{1, 2, int64(1 + rng.Intn(b+2))} {
			ask(c, "running", k)
		}
	}
	// export after the current block, import, and ask for the blocks the original chain can still name
	if _, pi := c.End(); pi != nil {
		return c
	}
	var exp []byte
	var expH int64
	if pi := catch(func() {
		e, err := c.App.ExportAppStateAndValidators(false, nil)
		if err != nil {
			panic(err)
		}
		exp, expH = e.AppState, e.Height
	}); pi != nil {
		out.emit(D{"k": "blockhash", "phase": "export", "h": c.Height, "code": 1, "log": trunc(pi.Value, 120)})
		return c
	}
	x := NewChainFromGenesis(c, exp, expH, c.Time, quiet)
	x.Rng = rng
	last := c.Height // the last block before the export
	// both chains go on with one more block (the imported chain's numbering is one ahead: InitChain commits the initial height)
	if pi := c.Begin(3 * time.Second); pi != nil {
		out.emit(D{"k": "blockhash", "phase": "original_after_export", "h": c.Height, "code": 1, "log": trunc(pi.Value, 120)})
		return c
	}
	if pi := x.Begin(3 * time.Second); pi != nil {
		out.emit(D{"k": "blockhash", "phase": "imported", "h": x.Height, "code": 1, "log": trunc(pi.Value, 120)})
		return c
	}
	for _, n := range []int64{last, last - 1, last - 2} {
		ask(c, "original_after_export", c.Height-n)
		ask(x, "imported", x.Height-n)
	}
	x.End()
	return c
}
