package sim

import (
	cvmtypes "github.com/certikfoundation/shentu/x/cvm/types"
	authtypes "github.com/cosmos/cosmos-sdk/x/auth/types"
	banktypes "github.com/cosmos/cosmos-sdk/x/bank/types"
	"time"

	sdk "github.com/cosmos/cosmos-sdk/types"
	sdkgovtypes "github.com/cosmos/cosmos-sdk/x/gov/types"
	sdkminttypes "github.com/cosmos/cosmos-sdk/x/mint/types"
	slashingtypes "github.com/cosmos/cosmos-sdk/x/slashing/types"
	stakingtypes "github.com/cosmos/cosmos-sdk/x/staking/types"

	"github.com/certikfoundation/shentu/app"
	appparams "github.com/certikfoundation/shentu/app/params"
	certtypes "github.com/certikfoundation/shentu/x/cert/types"
	govtypes "github.com/certikfoundation/shentu/x/gov/types"
	shieldtypes "github.com/certikfoundation/shentu/x/shield/types"
)

// ShieldCfg are the parameters a shield history runs under (short periods so that expiry, withdrawal completion,
// voting ends and payout times actually occur).
type ShieldCfg struct {
	Protection, Withdraw, Voting, Payout, Unbonding time.Duration
	MinPurchase                                     int64
	FeesRate, PoolLimit, StakingRate, DepositRate   sdk.Dec
	MinClaimDeposit                                 int64
	// the claim deposit parameter also names a second denomination (admission looks at the bond denomination only)
	MinClaimDepositSecondDenom bool
}

// withSecondDenom: one history in six runs with a claim deposit parameter that names a second denomination (own random stream)
func withSecondDenom(sc ShieldCfg, seed int64) ShieldCfg {
	sc.MinClaimDepositSecondDenom = newRng(seed*151+5).Intn(6) == 0
	return sc
}

func shieldPatch(sc ShieldCfg, depositPeriod time.Duration, t0 time.Time) func(enc appparams.EncodingConfig, gs app.GenesisState) {
	return func(enc appparams.EncodingConfig, gs app.GenesisState) {
		var sg shieldtypes.GenesisState
		enc.Marshaler.MustUnmarshalJSON(gs[shieldtypes.ModuleName], &sg)
		sg.PoolParams.ProtectionPeriod = sc.Protection
		sg.PoolParams.WithdrawPeriod = sc.Withdraw
		sg.PoolParams.ShieldFeesRate = sc.FeesRate
		sg.PoolParams.PoolShieldLimit = sc.PoolLimit
		sg.PoolParams.MinShieldPurchase = sdk.NewCoins(sdk.NewInt64Coin(Bond, sc.MinPurchase))
		sg.ClaimProposalParams.PayoutPeriod = sc.Payout
		sg.ClaimProposalParams.ClaimPeriod = sc.Protection
		sg.ClaimProposalParams.MinDeposit = sdk.NewCoins(sdk.NewInt64Coin(Bond, sc.MinClaimDeposit))
		if sc.MinClaimDepositSecondDenom {
			sg.ClaimProposalParams.MinDeposit = sg.ClaimProposalParams.MinDeposit.Add(sdk.NewInt64Coin("zzz", 1))
		}
		sg.ClaimProposalParams.DepositRate = sc.DepositRate
		sg.ShieldStakingRate = sc.StakingRate
		// DefaultGenesisState stamps the wall clock; a genesis file carries the chain's own start time
		sg.LastUpdateTime = t0
		gs[shieldtypes.ModuleName] = enc.Marshaler.MustMarshalJSON(&sg)
		var gg govtypes.GenesisState
		enc.Marshaler.MustUnmarshalJSON(gs[sdkgovtypes.ModuleName], &gg)
		gg.DepositParams.MaxDepositPeriod = depositPeriod
		gg.DepositParams.MinInitialDeposit = sdk.Coins{sdk.NewInt64Coin(Bond, 0)}
		gg.DepositParams.MinDeposit = sdk.NewCoins(sdk.NewInt64Coin(Bond, 5000))
		gg.VotingParams.VotingPeriod = sc.Voting
		gs[sdkgovtypes.ModuleName] = enc.Marshaler.MustMarshalJSON(&gg)
		var stg stakingtypes.GenesisState
		enc.Marshaler.MustUnmarshalJSON(gs[stakingtypes.ModuleName], &stg)
		stg.Params.UnbondingTime = sc.Unbonding
		gs[stakingtypes.ModuleName] = enc.Marshaler.MustMarshalJSON(&stg)
		// block provisions large enough for the shield share of the mint to be non-zero
		var mg sdkminttypes.GenesisState
		enc.Marshaler.MustUnmarshalJSON(gs[sdkminttypes.ModuleName], &mg)
		mg.Params.BlocksPerYear = 20000
		gs[sdkminttypes.ModuleName] = enc.Marshaler.MustMarshalJSON(&mg)
	}
}

// ShieldProfile generates histories for C02–C07 (and C08): pools, collateral deposits and withdrawals by providers with
// stake on several validators, (un/re)delegations, paid and staked purchases at the limits, expiry and renewal, claims with
// votes through both rounds, payouts, reimbursement withdrawals, with block-time gaps around every period.
func ShieldProfile(seed int64, out *Recorder, nOps int) *Chain {
	rng := newRng(seed)
	unit := time.Duration(20+rng.Intn(20)) * time.Second
	// The module's design assumption (keeper/collateral.go): the withdraw period is not shorter than the protection
	// period (21 days each by default), and both are well above the claim lock of two voting periods.
	sc := ShieldCfg{Protection: 6 * unit, Withdraw: time.Duration(6+rng.Intn(2)) * unit, Voting: unit, Payout: 2 * unit, Unbonding: 0,
		MinPurchase: []int64{1, 1000, 50000}[rng.Intn(3)],
		FeesRate:    []sdk.Dec{sdk.NewDecWithPrec(769, 5), sdk.NewDecWithPrec(1, 1), sdk.NewDecWithPrec(3333, 4)}[rng.Intn(3)],
		PoolLimit:   []sdk.Dec{sdk.NewDecWithPrec(50, 2), sdk.NewDecWithPrec(100, 2), sdk.NewDecWithPrec(25, 2)}[rng.Intn(3)],
		StakingRate: []sdk.Dec{sdk.NewDec(2), sdk.NewDecWithPrec(15, 1), sdk.NewDecWithPrec(7, 1)}[rng.Intn(3)],
		DepositRate: sdk.NewDecWithPrec(10, 2), MinClaimDeposit: []int64{100, 10000}[rng.Intn(2)]}
	// ... and the staking unbonding time is not shorter than the withdraw period (21 days each by default): stake that backs
	// collateral cannot leave before the collateral does
	sc.Unbonding = sc.Withdraw + time.Duration(rng.Intn(2))*unit
	if rng.Intn(4) == 0 {
		// Outside that domain (one history in four): shorter withdraw and unbonding periods, in either order. Collateral or stake can
		// then leave while protection or a claim is open; a claim that passes the vote may find its payout impossible, in which case
		// the proposal must fail (and undo its lock) — the chain must go on.
		sc.Withdraw = time.Duration(2+rng.Intn(4)) * unit
		sc.Unbonding = time.Duration(2+rng.Intn(4)) * unit
	}
	nVal := 2 + rng.Intn(2)
	stakes := [][]int64{{1000000000, 1000000000, 1000000000}, {3000000000, 1000000000, 500000000}}[rng.Intn(2)]
	t0 := time.Unix(1600000000, 0).UTC()
	cfg := GenCfg{Seed: seed, H0: 10, T0: t0, NAcc: 10, NVal: nVal, NCert: 1, AdminIdx: 9,
		Balance: 1000000000000, ValStake: stakes, Patch: shieldPatch(withSecondDenom(sc, seed), 2*unit, t0), Votes: true,
		MinSelf: [][]int64{{1}, {stakes[0] - 5000000, 1, 1}, {1, stakes[1] - 20000000, 1}}[rng.Intn(3)]}
	c := NewChain(cfg, out)
	c.Rng = rng
	out.Genesis(c, D{"profile": "shield", "unit": unit.Nanoseconds()})
	if !c.Advance(2 * time.Second) {
		return c
	}
	admin := cfg.AdminIdx
	certifier := cfg.NVal // first certifier
	sk := c.App.VerifShieldKeeper()
	// certify identities so that stake-round votes on claims count
	for i := 0; i < cfg.NAcc; i++ {
		if rng.Intn(4) > 0 {
			msg := certtypes.NewMsgIssueCertificate(certtypes.AssembleContent("identity", c.Accts[i].Addr.String()), "", "", "id", c.Accts[certifier].Addr)
			c.Do(certifier, []D{{"t": "cert.issue", "kind": "identity", "content": Hex(c.Accts[i].Addr), "certifier": Hex(c.Accts[certifier].Addr)}}, msg)
		}
	}
	// some delegators so that providers other than the validators exist
	for i := cfg.NVal; i < cfg.NVal+3; i++ {
		for v := 0; v < cfg.NVal; v++ {
			if rng.Intn(3) > 0 {
				amt := []int64{100000000, 500000000, 1000000000}[rng.Intn(3)]
				c.Do(i, []D{{"t": "staking.delegate", "del": Hex(c.Accts[i].Addr), "val": Hex(c.Accts[v].Addr), "amt": amt}},
					stakingtypes.NewMsgDelegate(c.Accts[i].Addr, sdk.ValAddress(c.Accts[v].Addr), sdk.NewInt64Coin(Bond, amt)))
			}
		}
	}
	// an identity certificate whose content is not an address (the cert module accepts any text): whoever walks the certified
	// identities must cope with it (own random stream, like every later addition to this generator)
	if newRng(seed*17+1).Intn(3) == 0 {
		msg := certtypes.NewMsgIssueCertificate(certtypes.AssembleContent("identity", "not-an-address"), "", "", "id", c.Accts[certifier].Addr)
		c.Do(certifier, []D{{"t": "cert.issue", "kind": "identity", "content": "not-an-address", "certifier": Hex(c.Accts[certifier].Addr)}}, msg)
	}
	scenario := rng.Intn(9) // 0,1,2: a scripted opening (below); otherwise none
	if scenario >= 3 && cfg.NVal >= 2 && newRng(seed*17+3).Intn(5) == 0 {
		scenario = 3 // a claim whose payout cannot be made: the provider's validator double-signs while the claim is open
	}
	// history seeds that the export profile maps to this profile (seed % 5 == 3): every other one opens with a scripted claim on
	// one of two same-block purchases, so that exports are regularly taken while such a pair is waiting in the expiry queue
	if seed%5 == 3 && (seed/5)%2 == 0 && scenario > 2 {
		scenario = int((seed / 10) % 3)
	}
	if scenario <= 3 {
		for i := 0; i < cfg.NAcc; i++ { // every account a certified identity: the stake round of the scripted claim must reach quorum
			msg := certtypes.NewMsgIssueCertificate(certtypes.AssembleContent("identity", c.Accts[i].Addr.String()), "", "", "id", c.Accts[certifier].Addr)
			c.Do(certifier, []D{{"t": "cert.issue", "kind": "identity", "content": Hex(c.Accts[i].Addr), "certifier": Hex(c.Accts[certifier].Addr)}}, msg)
		}
		if !shieldScenario(c, rng, scenario, sc, cfg, admin, certifier, unit) {
			return c
		}
	}
	providers := []int{0, 1, cfg.NVal, cfg.NVal + 1, cfg.NVal + 2}
	purchasers := []int{5, 6, 7, 8}
	coin := func(a int64) sdk.Coins { return c.Coins(a, Bond) }
	limitChoices := []int64{1000000000, 5000000, 0, 50000000000}
	doubleSigned := false
	for i := 0; i < nOps && c.Halted == ""; i++ {
		// once in a while somebody tries to pay coins into the module's account through the VM (a call carrying value): the
		// bank refuses plain sends to module accounts, and the books of this module rely on it (own random stream)
		if r3 := newRng(seed*131 + int64(i)); r3.Intn(40) == 0 {
			from := r3.Intn(cfg.NAcc)
			ma := authtypes.NewModuleAddress("shield")
			value := uint64(1 + r3.Intn(5000))
			if r3.Intn(2) == 0 { // … or by a plain bank send, which the bank refuses (blocked recipient)
				c.Do(from, []D{{"t": "bank.send", "from": Hex(c.Accts[from].Addr), "to": Hex(ma), "amt": CoinsJ(c.Coins(int64(value), Bond)), "toKind": ""}},
					banktypes.NewMsgSend(c.Accts[from].Addr, ma, c.Coins(int64(value), Bond)))
			} else {
				m := cvmtypes.NewMsgCall(c.Accts[from].Addr.String(), ma.String(), value, nil)
				c.DoGas(from, 3000000, DefaultFee, []D{{"t": "cvm.call", "caller": Hex(c.Accts[from].Addr), "callee": Hex(ma), "kind": "none", "value": value, "data": "", "expect": "any"}}, nil, &m)
			}
		}
		if r4 := newRng(seed*137 + int64(i)); r4.Intn(60) == 0 {
			switch r4.Intn(3) {
			case 0: // a validator double-signs (once per history, never the last one standing)
				if !doubleSigned && cfg.NVal >= 2 {
					doubleSigned = true
					c.DoubleSign(r4.Intn(cfg.NVal))
				}
			case 1: // a hand-made message with a negative amount: only the message's own validation stands in its way
				a := r4.Intn(cfg.NAcc)
				neg := sdk.Coins{sdk.Coin{Denom: Bond, Amount: sdk.NewInt(-int64(1 + r4.Intn(1000000000)))}}
				c.Do(a, []D{{"t": "shield.deposit", "from": Hex(c.Accts[a].Addr), "amt": neg[0].Amount.Int64()}}, shieldtypes.NewMsgDepositCollateral(c.Accts[a].Addr, neg))
			default:
				a := r4.Intn(cfg.NAcc)
				neg := sdk.Coins{sdk.Coin{Denom: Bond, Amount: sdk.NewInt(-int64(1 + r4.Intn(1000000000)))}}
				c.Do(a, []D{{"t": "shield.withdraw", "from": Hex(c.Accts[a].Addr), "amt": neg[0].Amount.Int64()}}, shieldtypes.NewMsgWithdrawCollateral(c.Accts[a].Addr, neg))
			}
		}
		ctx := c.Ctx()
		pools := sk.GetAllPools(ctx)
		totalColl := sk.GetTotalCollateral(ctx).Int64()
		free := totalColl - sk.GetTotalWithdrawing(ctx).Int64() - sk.GetTotalClaimed(ctx).Int64() - sk.GetTotalShield(ctx).Int64()
		r := rng.Intn(100)
		switch {
		case r < 16:
			dts := []time.Duration{time.Second, 5 * time.Second, unit / 2, unit - time.Second, unit, unit + time.Second, 2 * unit, sc.Withdraw, sc.Protection, sc.Protection + unit, 10 * sc.Protection}
			w := []int{6, 6, 4, 2, 3, 2, 2, 1, 1, 1, 1}
			tot := 0
			for _, x := range w {
				tot += x
			}
			k := rng.Intn(tot)
			j := 0
			for ; k >= w[j]; j++ {
				k -= w[j]
			}
			if !c.Advance(dts[j]) {
				return c
			}
		case r < 17 && rng.Intn(3) == 0: // a validator goes offline (downtime: jailed and slashed after a few blocks) or comes back
			v := rng.Intn(cfg.NVal)
			op := Hex(c.Accts[v].Addr)
			if c.Offline[op] {
				delete(c.Offline, op)
				c.Do(v, []D{{"t": "slashing.unjail", "val": op}}, slashingtypes.NewMsgUnjail(sdk.ValAddress(c.Accts[v].Addr)))
			} else if len(c.Offline) == 0 {
				c.Offline[op] = true
				out.Note(D{"k": "note", "offline": op, "h": c.Height})
				for j := 0; j < 5; j++ { // the window is six blocks
					if !c.Advance(time.Second) {
						return c
					}
				}
			}
		case r < 28: // deposit collateral
			p := providers[rng.Intn(len(providers))]
			if rng.Intn(10) == 0 {
				p = rng.Intn(cfg.NAcc)
			}
			prov, found := sk.GetProvider(ctx, c.Accts[p].Addr)
			amt := []int64{1, 1000, 1000000, 100000000, 499999999, 500000000}[rng.Intn(6)]
			if found && rng.Intn(3) == 0 { // at the bonded-stake boundary
				room := prov.DelegationBonded.Int64() - prov.Collateral.Int64() + prov.Withdrawing.Int64()
				amt = []int64{room, room + 1, room - 1}[rng.Intn(3)]
				if amt <= 0 {
					amt = 1
				}
			}
			c.Do(p, []D{{"t": "shield.deposit", "from": Hex(c.Accts[p].Addr), "amt": amt}}, shieldtypes.NewMsgDepositCollateral(c.Accts[p].Addr, coin(amt)))
		case r < 36 && rng.Intn(12) == 0: // every provider asks for everything back
			for _, p := range providers {
				if prov, found := sk.GetProvider(ctx, c.Accts[p].Addr); found {
					if w := prov.Collateral.Int64() - prov.Withdrawing.Int64(); w > 0 {
						c.Do(p, []D{{"t": "shield.withdraw", "from": Hex(c.Accts[p].Addr), "amt": w}}, shieldtypes.NewMsgWithdrawCollateral(c.Accts[p].Addr, coin(w)))
					}
				}
			}
		case r < 36: // withdraw collateral
			p := providers[rng.Intn(len(providers))]
			prov, found := sk.GetProvider(ctx, c.Accts[p].Addr)
			amt := []int64{1, 1000, 1000000, 50000000}[rng.Intn(4)]
			if found && rng.Intn(2) == 0 {
				w := prov.Collateral.Int64() - prov.Withdrawing.Int64()
				amt = []int64{w, w + 1, w / 2, w - 1}[rng.Intn(4)]
				if amt <= 0 {
					amt = 1
				}
			}
			n := 1
			if rng.Intn(4) == 0 {
				n = 2 // two requests sharing a completion time (and sometimes an amount)
			}
			for j := 0; j < n; j++ {
				c.Do(p, []D{{"t": "shield.withdraw", "from": Hex(c.Accts[p].Addr), "amt": amt}}, shieldtypes.NewMsgWithdrawCollateral(c.Accts[p].Addr, coin(amt)))
				if rng.Intn(2) == 0 {
					amt = amt/2 + 1
				}
			}
		case r < 44: // staking by providers: the hooks must keep collateral backed
			p := providers[rng.Intn(len(providers))]
			v := rng.Intn(cfg.NVal)
			val := sdk.ValAddress(c.Accts[v].Addr)
			switch rng.Intn(4) {
			case 0:
				amt := []int64{1000, 100000000, 700000000}[rng.Intn(3)]
				c.Do(p, []D{{"t": "staking.delegate", "del": Hex(c.Accts[p].Addr), "val": Hex(c.Accts[v].Addr), "amt": amt}},
					stakingtypes.NewMsgDelegate(c.Accts[p].Addr, val, sdk.NewInt64Coin(Bond, amt)))
			case 1, 2:
				amt := []int64{1000, 100000000, 400000000, 999999999}[rng.Intn(4)]
				if del, ok := c.App.VerifStakingKeeper().GetDelegation(ctx, c.Accts[p].Addr, val); ok && rng.Intn(3) == 0 {
					amt = del.Shares.TruncateInt64() // whole delegation: BeforeDelegationRemoved
				}
				c.Do(p, []D{{"t": "staking.undelegate", "del": Hex(c.Accts[p].Addr), "val": Hex(c.Accts[v].Addr), "amt": amt}},
					stakingtypes.NewMsgUndelegate(c.Accts[p].Addr, val, sdk.NewInt64Coin(Bond, amt)))
			default:
				v2 := rng.Intn(cfg.NVal)
				amt := []int64{1000, 100000000, 300000000}[rng.Intn(3)]
				c.Do(p, []D{{"t": "staking.redelegate", "del": Hex(c.Accts[p].Addr), "src": Hex(c.Accts[v].Addr), "dst": Hex(c.Accts[v2].Addr), "amt": amt}},
					stakingtypes.NewMsgBeginRedelegate(c.Accts[p].Addr, val, sdk.ValAddress(c.Accts[v2].Addr), sdk.NewInt64Coin(Bond, amt)))
			}
		case r < 52: // admin: pools
			signer := admin
			if rng.Intn(8) == 0 {
				signer = rng.Intn(cfg.NAcc)
			}
			sa := c.Accts[signer].Addr
			switch k := rng.Intn(10); {
			case k < 4 || len(pools) == 0:
				shield := []int64{1000000, 50000000, 1}[rng.Intn(3)]
				fees := []int64{1000, 777777, 1}[rng.Intn(3)]
				lim := limitChoices[rng.Intn(len(limitChoices))]
				sponsor := []string{"s1", "s2", "s3", "s4"}[rng.Intn(4)]
				spAddr := c.Accts[rng.Intn(cfg.NAcc)].Addr
				c.Do(signer, []D{{"t": "shield.createPool", "from": Hex(sa), "shield": shield, "fees": fees, "sponsor": sponsor, "sponsorAddr": Hex(spAddr), "limit": lim}},
					shieldtypes.NewMsgCreatePool(sa, coin(shield), shieldtypes.MixedCoins{Native: coin(fees)}, sponsor, spAddr, "d", sdk.NewInt(lim)))
			case k < 7:
				pool := pools[rng.Intn(len(pools))]
				shield := []int64{0, 0, 1000000, 1}[rng.Intn(4)]
				fees := []int64{0, 1000, 777777}[rng.Intn(3)]
				lim := []int64{0, 0, 1000000000, 1, -5}[rng.Intn(5)]
				sh := sdk.NewCoins()
				if shield > 0 {
					sh = coin(shield)
				}
				fe := sdk.NewCoins()
				if fees > 0 {
					fe = coin(fees)
				}
				// a new description in the same message as a purchase / a new limit (drawn from its own stream: the histories
				// of earlier versions of this generator, which corpus/histories.json names by seed, stay what they were)
				descr := []string{"", "", "d1", "d2"}[newRng(seed*7919+int64(i)).Intn(4)]
				c.Do(signer, []D{{"t": "shield.updatePool", "from": Hex(sa), "pool": pool.Id, "shield": shield, "fees": fees, "limit": lim, "description": descr}},
					shieldtypes.NewMsgUpdatePool(sa, sh, shieldtypes.MixedCoins{Native: fe}, pool.Id, descr, sdk.NewInt(lim)))
			case k < 8:
				pool := pools[rng.Intn(len(pools))]
				c.Do(signer, []D{{"t": "shield.pausePool", "from": Hex(sa), "pool": pool.Id}}, shieldtypes.NewMsgPausePool(sa, pool.Id))
			case k < 9:
				pool := pools[rng.Intn(len(pools))]
				c.Do(signer, []D{{"t": "shield.resumePool", "from": Hex(sa), "pool": pool.Id}}, shieldtypes.NewMsgResumePool(sa, pool.Id))
			default:
				pool := pools[rng.Intn(len(pools))]
				spAddr := c.Accts[rng.Intn(cfg.NAcc)].Addr
				sponsor := []string{"s1", "s5"}[rng.Intn(2)]
				c.Do(signer, []D{{"t": "shield.updateSponsor", "from": Hex(sa), "pool": pool.Id, "sponsor": sponsor, "sponsorAddr": Hex(spAddr)}},
					shieldtypes.NewMsgUpdateSponsor(pool.Id, sponsor, spAddr, sa))
			}
		case r < 68: // purchases, paid and staked, around the limits
			if len(pools) == 0 {
				continue
			}
			pool := pools[rng.Intn(len(pools))]
			poolID := pool.Id
			if rng.Intn(12) == 0 {
				poolID = uint64(1 + rng.Intn(6))
			}
			pu := purchasers[rng.Intn(len(purchasers))]
			amt := []int64{sc.MinPurchase, sc.MinPurchase - 1, 1000000, 7777777, 50000000}[rng.Intn(5)]
			if rng.Intn(3) == 0 && free > 0 { // global limit
				amt = []int64{free, free + 1, free - 1}[rng.Intn(3)]
			} else if rng.Intn(3) == 0 { // pool limit
				maxPool := pool.ShieldLimit.Int64() - pool.Shield.Int64()
				amt = []int64{maxPool, maxPool + 1, maxPool - 1}[rng.Intn(3)]
			}
			if amt <= 0 {
				amt = 1
			}
			if rng.Intn(3) == 0 {
				c.Do(pu, []D{{"t": "shield.stakeForShield", "from": Hex(c.Accts[pu].Addr), "pool": poolID, "amt": amt}},
					shieldtypes.NewMsgStakeForShield(poolID, coin(amt), "asset", c.Accts[pu].Addr))
			} else {
				c.Do(pu, []D{{"t": "shield.purchase", "from": Hex(c.Accts[pu].Addr), "pool": poolID, "amt": amt}},
					shieldtypes.NewMsgPurchaseShield(poolID, coin(amt), "asset", c.Accts[pu].Addr))
			}
		case r < 72: // unstake
			stakes := sk.GetAllStakeForShields(ctx)
			pu := purchasers[rng.Intn(len(purchasers))]
			poolID := uint64(1)
			amt := int64(1000)
			if len(stakes) > 0 && rng.Intn(6) > 0 {
				s := stakes[rng.Intn(len(stakes))]
				a, _ := sdk.AccAddressFromBech32(s.Purchaser)
				pu = c.idxOf(a, pu)
				poolID = s.PoolId
				room := s.Amount.Int64() - s.WithdrawRequested.Int64()
				amt = []int64{room, room + 1, room / 2, 1}[rng.Intn(4)]
				if amt <= 0 {
					amt = 1
				}
			}
			c.Do(pu, []D{{"t": "shield.unstake", "from": Hex(c.Accts[pu].Addr), "pool": poolID, "amt": amt}},
				shieldtypes.NewMsgUnstakeFromShield(poolID, coin(amt), c.Accts[pu].Addr))
		case r < 77: // withdraw rewards
			p := providers[rng.Intn(len(providers))]
			c.Do(p, []D{{"t": "shield.withdrawRewards", "from": Hex(c.Accts[p].Addr)}}, shieldtypes.NewMsgWithdrawRewards(c.Accts[p].Addr))
		case r < 86: // claims
			lists := sk.GetAllPurchaseLists(ctx)
			if len(lists) == 0 {
				continue
			}
			pl := lists[rng.Intn(len(lists))]
			owner, _ := sdk.AccAddressFromBech32(pl.Purchaser)
			signer := c.idxOf(owner, purchasers[0])
			contentProposer := owner
			poolID := pl.PoolId
			e := pl.Entries[rng.Intn(len(pl.Entries))]
			purchaseID := e.PurchaseId
			loss := []int64{1, e.Shield.Int64(), e.Shield.Int64() + 1, e.Shield.Int64() / 2, e.Shield.Int64() / 3}[rng.Intn(5)]
			if loss <= 0 {
				loss = 1
			}
			switch rng.Intn(12) {
			case 0: // somebody else's purchase
				signer = purchasers[rng.Intn(len(purchasers))]
				contentProposer = c.Accts[signer].Addr
			case 1: // a purchase id that does not exist (or belongs to another list)
				purchaseID = uint64(1 + rng.Intn(40))
			case 2: // wrong pool
				poolID = uint64(1 + rng.Intn(5))
			case 3: // signer differs from the proposer named in the content
				signer = purchasers[rng.Intn(len(purchasers))]
			}
			need := sc.DepositRate.MulInt64(loss).TruncateInt64()
			if need < sc.MinClaimDeposit {
				need = sc.MinClaimDeposit
			}
			dep := []int64{need, need, need + 1, need - 1, need * 2}[rng.Intn(5)]
			if dep < 0 {
				dep = 0
			}
			lossCoins := coin(loss)
			if rng.Intn(10) == 0 { // a loss that is not a valid amount
				loss = -loss
				lossCoins = sdk.Coins{sdk.Coin{Denom: Bond, Amount: sdk.NewInt(loss)}}
			}
			// a loss that names a second denomination besides the one shield is sold in (own random stream): nothing is ever
			// collected for it, so nothing may be owed for it
			if r5 := newRng(seed*149 + int64(i)); loss > 0 && r5.Intn(6) == 0 {
				lossCoins = lossCoins.Add(sdk.NewInt64Coin("zzz", 1+int64(r5.Intn(1000))))
			}
			content := shieldtypes.NewShieldClaimProposal(poolID, lossCoins, purchaseID, "ev", "desc", contentProposer)
			if rng.Intn(8) == 0 { // the proposal id inside the content is the chain's to assign
				content.ProposalId = uint64(1 + rng.Intn(6))
			}
			c.SubmitProposal(signer, content, D{"kind": "claim", "pool": poolID, "purchase": purchaseID, "loss": loss, "contentProposer": Hex(contentProposer)}, coin(dep))
		case r < 96: // votes
			props := c.App.VerifGovKeeper().GetProposals(ctx)
			var voting []govtypes.Proposal
			for _, p := range props {
				if p.Status == govtypes.StatusCertifierVotingPeriod || p.Status == govtypes.StatusValidatorVotingPeriod {
					voting = append(voting, p)
				}
			}
			if len(voting) == 0 {
				continue
			}
			p := voting[rng.Intn(len(voting))]
			bias := rng.Intn(4) // 0,1 yes; 2 no; 3 veto
			if p.Status == govtypes.StatusCertifierVotingPeriod {
				opt := sdkgovtypes.OptionYes
				if bias == 2 {
					opt = sdkgovtypes.OptionNo
				}
				c.Vote(certifier, p.ProposalId, opt)
			} else {
				for v := 0; v < cfg.NVal+3; v++ {
					if rng.Intn(4) == 0 {
						continue
					}
					opt := sdkgovtypes.OptionYes
					if bias == 2 && rng.Intn(3) > 0 {
						opt = sdkgovtypes.OptionNo
					} else if bias == 3 && rng.Intn(3) > 0 {
						opt = sdkgovtypes.OptionNoWithVeto
					}
					c.Vote(v, p.ProposalId, opt)
				}
			}
		default: // withdraw reimbursement
			rs := sk.GetAllProposalIDReimbursementPairs(ctx)
			pu := purchasers[rng.Intn(len(purchasers))]
			pid := uint64(1 + rng.Intn(5))
			if len(rs) > 0 && rng.Intn(6) > 0 {
				rp := rs[rng.Intn(len(rs))]
				pid = rp.ProposalId
				if rng.Intn(5) > 0 {
					b, _ := sdk.AccAddressFromBech32(rp.Reimbursement.Beneficiary)
					pu = c.idxOf(b, pu)
				}
			}
			c.Do(pu, []D{{"t": "shield.withdrawReimbursement", "from": Hex(c.Accts[pu].Addr), "pid": pid}},
				shieldtypes.NewMsgWithdrawReimbursement(pid, c.Accts[pu].Addr))
		}
	}
	for i := 0; i < 4 && c.Halted == ""; i++ {
		if !c.Advance(sc.Withdraw) {
			break
		}
	}
	if c.Halted == "" && c.InBlock {
		c.End()
	}
	return c
}

// shieldScenario plays a scripted opening that puts the module into a situation the random generator reaches rarely; amounts
// are drawn around the boundaries that matter.  The history continues with random operations afterwards.
//
//	0: a claim for the whole shield is paid by a provider most of whose collateral sits in one queued withdrawal
//	   (the payout must shrink that entry by exactly what it takes)
//	1: an old large withdrawal about to mature and a fresh small one; then a claim whose lock must postpone the old one only
//	2: a provider undelegates most of its stake while somebody else redelegates in the same block; a claim then has to
//	   postpone the provider's unbonding entry (and nothing else in the staking queues)
func shieldScenario(c *Chain, rng interface{ Intn(int) int }, kind int, sc ShieldCfg, cfg GenCfg, admin, certifier int, unit time.Duration) bool {
	sk := c.App.VerifShieldKeeper()
	coin := func(a int64) sdk.Coins { return c.Coins(a, Bond) }
	prov, buyer := 0, 5
	pa := c.Accts[prov].Addr
	stake := cfg.ValStake[0]
	jitter := func(x int64) int64 { return x + int64(rng.Intn(3)) - 1 }
	// the histories in which the opening was chosen by the seed (see the caller) take the branch that needs the most to line up
	forced := kind == 0 && c.Cfg.Seed%5 == 3 && (c.Cfg.Seed/5)%2 == 0
	collateral := []int64{400000000, stake * 9 / 10, 250000000}[rng.Intn(3)]
	if kind == 3 {
		collateral = stake * 9 / 10 // most of the stake: after the slash it cannot cover the payout
	}
	c.Do(prov, []D{{"t": "shield.deposit", "from": Hex(pa), "amt": collateral}}, shieldtypes.NewMsgDepositCollateral(pa, coin(collateral)))
	c.Do(admin, []D{{"t": "shield.createPool", "from": Hex(c.Accts[admin].Addr), "shield": 1, "fees": 1000, "sponsor": "scn", "sponsorAddr": Hex(c.Accts[8].Addr), "limit": 50000000000}},
		shieldtypes.NewMsgCreatePool(c.Accts[admin].Addr, coin(1), shieldtypes.MixedCoins{Native: coin(1000)}, "scn", c.Accts[8].Addr, "d", sdk.NewInt(50000000000)))
	pools := sk.GetAllPools(c.Ctx())
	if len(pools) == 0 {
		return true
	}
	poolID := pools[len(pools)-1].Id
	// the largest purchase the pool fraction allows
	free := sk.GetTotalCollateral(c.Ctx()).Int64() - sk.GetTotalWithdrawing(c.Ctx()).Int64() - sk.GetTotalClaimed(c.Ctx()).Int64()
	maxS := sc.PoolLimit.MulInt64(free).TruncateInt64() - 1
	if maxS > free-1 {
		maxS = free - 1
	}
	shield := maxS
	if kind == 1 {
		shield = maxS / 2
	}
	if shield < sc.MinPurchase {
		return true
	}
	// in one history out of three the buyer makes two purchases of the pool in the same block: two entries of one purchase list
	// with the same protection end time (they share one slot of the expiring-purchase queue); the claim is filed against the
	// larger one, whose deletion time then moves while the other's stays (own random stream)
	double := (newRng(c.Cfg.Seed*31+11).Intn(3) == 0 || (c.Cfg.Seed%5 == 3 && (c.Cfg.Seed/5)%2 == 0)) && shield >= 3*sc.MinPurchase
	if double {
		shield -= sc.MinPurchase
	}
	c.Do(buyer, []D{{"t": "shield.purchase", "from": Hex(c.Accts[buyer].Addr), "pool": poolID, "amt": shield}},
		shieldtypes.NewMsgPurchaseShield(poolID, coin(shield), "asset", c.Accts[buyer].Addr))
	if double {
		c.Do(buyer, []D{{"t": "shield.purchase", "from": Hex(c.Accts[buyer].Addr), "pool": poolID, "amt": sc.MinPurchase}},
			shieldtypes.NewMsgPurchaseShield(poolID, coin(sc.MinPurchase), "asset", c.Accts[buyer].Addr))
	}
	lists := sk.GetAllPurchaseLists(c.Ctx())
	var purchaseID uint64
	for _, l := range lists {
		if l.PoolId == poolID && l.Purchaser == c.Accts[buyer].Addr.String() && len(l.Entries) > 0 {
			purchaseID = l.Entries[len(l.Entries)-1].PurchaseId
			if double && len(l.Entries) >= 2 {
				purchaseID = l.Entries[len(l.Entries)-2].PurchaseId
			}
		}
	}
	if purchaseID == 0 {
		return true
	}
	withdraw := func(a int64) {
		if a > 0 {
			c.Do(prov, []D{{"t": "shield.withdraw", "from": Hex(pa), "amt": a}}, shieldtypes.NewMsgWithdrawCollateral(pa, coin(a)))
		}
	}
	loss := shield
	switch kind {
	case 0:
		// leave less free collateral than the provider's share of the shield: the payout reaches into the queued withdrawal
		w := jitter(collateral - shield/2)
		two := rng.Intn(2) == 0
		if forced {
			two = true
		}
		if two { // two entries sharing one slot of the queue: the boundary of the covered shield falls inside the older one
			withdraw(w - shield/4)
			withdraw(shield / 4)
		} else {
			withdraw(w)
		}
		loss = []int64{shield, shield - 1, shield / 2, jitter(shield / 2)}[rng.Intn(4)]
		if forced { // the lock must postpone BOTH entries, the payout uses up the later one and reaches into the earlier one
			loss = shield
		}
	case 1:
		// old and large; in every other history (own random stream) as two requests of one block — two entries in one slot of the
		// queue, the smaller one behind the larger — both of which the coming claim's lock has to postpone
		if old := jitter(collateral - shield/2); newRng(c.Cfg.Seed*31+11).Intn(2) == 0 && old > shield/8+1 && shield >= 8 {
			withdraw(old - shield/8)
			withdraw(shield / 8)
		} else {
			withdraw(old)
		}
		if !c.Advance(sc.Withdraw - unit - time.Duration(rng.Intn(3))*time.Second) {
			return false
		}
		withdraw([]int64{10000000, 1, shield / 4}[rng.Intn(3)]) // fresh: matures after the lock of the coming claim ends
		loss = []int64{shield, jitter(shield/2 + 1), shield - 1}[rng.Intn(3)]
	case 3:
		// nothing is withdrawn: the whole collateral stays behind the claim; the slash comes after the claim is filed (below)
		loss = []int64{shield, shield - 1, jitter(shield * 9 / 10)}[rng.Intn(3)]
	case 2:
		other := cfg.NVal // an account with delegations of its own (see the opening of the profile)
		val0 := sdk.ValAddress(c.Accts[0].Addr)
		dst := sdk.ValAddress(c.Accts[1%cfg.NVal].Addr)
		und := jitter(stake - collateral + shield/2 + collateral/2)
		if und >= stake {
			und = stake - 1000000
		}
		c.Do(prov, []D{{"t": "staking.undelegate", "del": Hex(pa), "val": Hex(c.Accts[0].Addr), "amt": und}},
			stakingtypes.NewMsgUndelegate(pa, val0, sdk.NewInt64Coin(Bond, und)))
		if del, ok := c.App.VerifStakingKeeper().GetDelegation(c.Ctx(), c.Accts[other].Addr, val0); ok && cfg.NVal > 1 {
			amt := del.Shares.TruncateInt64() / 2
			if amt > 0 {
				c.Do(other, []D{{"t": "staking.redelegate", "del": Hex(c.Accts[other].Addr), "src": Hex(c.Accts[0].Addr), "dst": Hex(c.Accts[1%cfg.NVal].Addr), "amt": amt}},
					stakingtypes.NewMsgBeginRedelegate(c.Accts[other].Addr, val0, dst, sdk.NewInt64Coin(Bond, amt)))
			}
		}
		// … and, in every other history, an undelegation of its own in the same block: two pairs in one time slice of the
		// unbonding queue, of which the claim's lock will move only the provider's (own random stream: see updatePool)
		if r2 := newRng(c.Cfg.Seed*31 + 7); r2.Intn(2) == 0 {
			if del, ok := c.App.VerifStakingKeeper().GetDelegation(c.Ctx(), c.Accts[other].Addr, val0); ok {
				if amt := del.Shares.TruncateInt64() / int64(2+r2.Intn(3)); amt > 0 {
					c.Do(other, []D{{"t": "staking.undelegate", "del": Hex(c.Accts[other].Addr), "val": Hex(c.Accts[0].Addr), "amt": amt}},
						stakingtypes.NewMsgUndelegate(c.Accts[other].Addr, val0, sdk.NewInt64Coin(Bond, amt)))
				}
			}
		}
		if sc.Unbonding-unit > sc.Protection {
			return true
		}
		if !c.Advance(sc.Unbonding - unit) {
			return false
		}
		loss = []int64{shield, shield - 1, jitter(shield * 9 / 10)}[rng.Intn(3)]
	}
	if loss <= 0 {
		return true
	}
	need := sc.DepositRate.MulInt64(loss).TruncateInt64() + 1
	if need < sc.MinClaimDeposit {
		need = sc.MinClaimDeposit
	}
	before := c.App.VerifGovKeeper().GetProposals(c.Ctx())
	content := shieldtypes.NewShieldClaimProposal(poolID, coin(loss), purchaseID, "ev", "desc", c.Accts[buyer].Addr)
	c.SubmitProposal(buyer, content, D{"kind": "claim", "pool": poolID, "purchase": purchaseID, "loss": loss, "contentProposer": Hex(c.Accts[buyer].Addr)}, coin(need))
	after := c.App.VerifGovKeeper().GetProposals(c.Ctx())
	if len(after) == len(before) {
		return true
	}
	pid := after[len(after)-1].ProposalId
	if kind == 3 {
		c.DoubleSign(prov) // the provider is validator 0's operator: more than half of its stake is gone at the next block
	}
	c.Vote(certifier, pid, sdkgovtypes.OptionYes)
	if !c.Advance(time.Second) { // the certifier round is decided as soon as the threshold is met
		return false
	}
	opt := sdkgovtypes.OptionYes
	if rng.Intn(5) == 0 && !forced {
		opt = sdkgovtypes.OptionNo
	}
	for v := 0; v < cfg.NAcc; v++ {
		c.Vote(v, pid, opt)
	}
	return c.Advance(sc.Voting + time.Second)
}
