package sim

// Profile "govparams": the governance tally parameters changed the way a passed parameter-change proposal changes them, and the
// end of the next voting period (C08).
//
// A gov history is run first (quietly).  On its final state, in cache contexts that are thrown away afterwards, the REAL handler
// of x/params' ParameterChangeProposal is called with tally parameters at the edges of what validation admits (quorum 0 or 1,
// threshold and veto threshold tiny or 1, in the default tally and in the two tallies of certifier updates); when the parameter
// store accepts the value, a text proposal is submitted and funded through the keeper, nobody / one abstaining validator / one
// validator in favour votes, and the REAL gov.EndBlocker runs just after the voting period's end under recover.  One line per
// trial.  An accepted value under which the end-blocker aborts is a history of accepted transactions after which block
// processing halts.

import (
	"fmt"
	"time"

	sdk "github.com/cosmos/cosmos-sdk/types"
	sdkgovtypes "github.com/cosmos/cosmos-sdk/x/gov/types"
	"github.com/cosmos/cosmos-sdk/x/params"
	paramproposal "github.com/cosmos/cosmos-sdk/x/params/types/proposal"

	"github.com/certikfoundation/shentu/x/gov"
	govtypes "github.com/certikfoundation/shentu/x/gov/types"
)

func init() {
	Profiles["govparams"] = Profile{Mods: nil, Run: GovParamsProfile}
}

func GovParamsProfile(seed int64, out *Recorder, nOps int) *Chain {
	rng := newRng(seed ^ 0x90f7)
	quiet := NewRecorder(nopWriter{}, nil)
	a := Profiles["gov"].Run(seed, quiet, nOps)
	out.Reset()
	names := D{}
	for _, ac := range a.Accts {
		names[ac.Name] = Hex(ac.Addr)
	}
	out.emit(D{"k": "genesis", "seed": seed, "h": a.Cfg.H0, "t": nsStr(a.Cfg.T0), "names": names, "profile": "govparams", "base": "gov", "st": D{}})
	halted := a.Halted
	a.Halted = ""
	if halted != "" || a.InBlock {
		return a
	}
	ctx0 := a.Ctx()
	gk := a.App.VerifGovKeeper()
	bk := a.App.VerifBankKeeper()
	stk := a.App.VerifStakingKeeper()
	handler := params.NewParamChangeProposalHandler(a.App.VerifParamsKeeper())
	rich := a.Accts[0].Addr
	for _, ac := range a.Accts {
		if bk.GetBalance(ctx0, ac.Addr, Bond).Amount.GT(bk.GetBalance(ctx0, rich, Bond).Amount) {
			rich = ac.Addr
		}
	}
	tiny := sdk.NewDecWithPrec(1, 18)
	edge := func() sdk.Dec { return []sdk.Dec{tiny, sdk.OneDec(), sdk.NewDecWithPrec(int64(1+rng.Intn(999)), 3)}[rng.Intn(3)] }
	for i := 0; i < 9; i++ {
		ctx, _ := ctx0.CacheContext()
		tp := gk.GetTallyParams(ctx)
		set := func(t *sdkgovtypes.TallyParams, q sdk.Dec) {
			t.Quorum = q
			t.Threshold = edge()
			t.VetoThreshold = edge()
		}
		quorum := []sdk.Dec{sdk.ZeroDec(), sdk.ZeroDec(), sdk.OneDec(), tiny, sdk.NewDec(-1)}[rng.Intn(5)]
		which := []string{"default", "security", "stake", "all"}[rng.Intn(4)]
		if i == 0 { // always: no quorum anywhere and (below) nobody votes — 0 of 0 votes
			quorum, which = sdk.ZeroDec(), "all"
		}
		if which == "default" || which == "all" {
			set(tp.DefaultTally, quorum)
		}
		if which == "security" || which == "all" {
			set(tp.CertifierUpdateSecurityVoteTally, quorum)
		}
		if which == "stake" || which == "all" {
			set(tp.CertifierUpdateStakeVoteTally, quorum)
		}
		bz := a.App.LegacyAmino().MustMarshalJSON(tp)
		prop := paramproposal.NewParameterChangeProposal("tally parameters", "probe",
			[]paramproposal.ParamChange{paramproposal.NewParamChange(sdkgovtypes.ModuleName, string(govtypes.ParamStoreKeyTallyParams), string(bz))})
		line := D{"k": "gparams", "trial": i, "which": which, "quorum": quorum.String(), "value": trunc(string(bz), 400)}
		var herr error
		if pi := catch(func() { herr = handler(ctx, prop) }); pi != nil {
			line["accepted"] = false
			line["refusal"] = "panic: " + trunc(pi.Value, 100)
			out.emit(line)
			continue
		}
		if herr != nil {
			line["accepted"] = false
			line["refusal"] = trunc(herr.Error(), 100)
			out.emit(line)
			continue
		}
		line["accepted"] = true
		setup := ""
		var pid uint64
		var end time.Time
		if pi := catch(func() {
			p, err := gk.SubmitProposal(ctx, sdkgovtypes.NewTextProposal("probe", "probe"), rich)
			if err != nil {
				setup = "submit: " + trunc(err.Error(), 80)
				return
			}
			pid = p.ProposalId
			if p.Status == govtypes.StatusDepositPeriod {
				if _, err := gk.AddDeposit(ctx, pid, rich, gk.GetDepositParams(ctx).MinDeposit); err != nil {
					setup = "deposit: " + trunc(err.Error(), 80)
					return
				}
			}
			p, _ = gk.GetProposal(ctx, pid)
			if p.Status != govtypes.StatusValidatorVotingPeriod && p.Status != govtypes.StatusCertifierVotingPeriod {
				setup = "not in a voting period: " + p.Status.String()
				return
			}
			end = p.VotingEndTime
		}); pi != nil {
			setup = "panic: " + trunc(pi.Value, 80)
		}
		if setup != "" {
			line["setup"] = setup
			out.emit(line)
			continue
		}
		votes := []string{"none", "abstain", "yes", "veto"}[rng.Intn(4)]
		if i == 0 {
			votes = "none"
		}
		if votes != "none" {
			opt := map[string]sdkgovtypes.VoteOption{"abstain": sdkgovtypes.OptionAbstain, "yes": sdkgovtypes.OptionYes, "veto": sdkgovtypes.OptionNoWithVeto}[votes]
			voted := false
			for _, v := range stk.GetBondedValidatorsByPower(ctx) {
				if err := gk.AddVote(ctx, pid, sdk.AccAddress(v.GetOperator()), opt); err == nil {
					voted = true
					break
				}
			}
			if !voted {
				votes = "none"
			}
		}
		line["votes"] = votes
		ectx := ctx.WithBlockTime(end.Add(time.Second)).WithBlockHeight(ctx.BlockHeight() + 1)
		endblock := "ok"
		if pi := catch(func() { gov.EndBlocker(ectx, gk) }); pi != nil {
			endblock = "panic: " + trunc(pi.Value, 120)
		}
		line["endblock"] = endblock
		if p, found := gk.GetProposal(ectx, pid); found {
			line["status"] = p.Status.String()
		}
		line["pid"] = fmt.Sprint(pid)
		out.emit(line)
	}
	return a
}
