package sim

// Profile is a history generator together with the modules it observes.
type Profile struct {
	Mods []string
	Run  func(seed int64, out *Recorder, nOps int) *Chain
}

func init() {
	Profiles["determinism"] = Profile{Mods: nil, Run: DeterminismProfile}
	Profiles["export"] = Profile{Mods: nil, Run: ExportProfile}
}

var Profiles = map[string]Profile{
	"oracle": {Mods: []string{"bank", "oracle", "distr"}, Run: OracleProfile},
	"bankvm": {Mods: []string{"bank", "vesting", "cvm", "staking"}, Run: BankVMProfile},
	"gov":    {Mods: []string{"bank", "gov", "cert", "staking"}, Run: GovProfile},
	"staking": {Mods: []string{"bank", "staking"}, Run: StakingProfile},
	"shield": {Mods: []string{"bank", "shield", "gov", "cert", "staking"}, Run: ShieldProfile},
}
