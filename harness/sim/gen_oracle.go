package sim

import (
	"fmt"
	"time"

	sdk "github.com/cosmos/cosmos-sdk/types"

	"github.com/certikfoundation/shentu/app"
	appparams "github.com/certikfoundation/shentu/app/params"
	oracletypes "github.com/certikfoundation/shentu/x/oracle/types"
)

// OracleProfile generates histories for C14/C15: operators, collateral
// changes (several per block), withdraw maturity across byte boundaries of the
// height, tasks with boundary scores and multi-denomination bounties.
func OracleProfile(seed int64, out *Recorder, nOps int) *Chain {
	rng := newRng(seed)
	h0s := []int64{2, 240, 250, 65500, 65530, 16777200, 4294967280, 1000}
	locks := []int64{0, 1, 2, 3, 5, 7, 30, 255, 256, 257}
	if rng.Intn(3) > 0 { // mostly short locks so that withdrawals do complete
		locks = []int64{0, 1, 2, 3, 5, 7, 12}
	}
	lock := locks[rng.Intn(len(locks))]
	minColl := []int64{50000, 1000, 1}[rng.Intn(3)]
	window := []int64{1, 2, 3, 5}[rng.Intn(4)]
	threshold := []int64{50, 50, 30, 70}[rng.Intn(4)]
	cfg := GenCfg{Seed: seed, H0: h0s[rng.Intn(len(h0s))], T0: time.Unix(1600000000, 0).UTC(), NAcc: 8, NVal: 1, NCert: 1, AdminIdx: 2,
		ExtraDenom: []string{"aaa", "zzz"}, Balance: 1000000000000, ValStake: []int64{1000000000},
		Patch: func(enc appparams.EncodingConfig, gs app.GenesisState) {
			var og oracletypes.GenesisState
			enc.Marshaler.MustUnmarshalJSON(gs[oracletypes.ModuleName], &og)
			og.PoolParams.LockedInBlocks = lock
			og.PoolParams.MinimumCollateral = minColl
			og.TaskParams.AggregationWindow = window
			og.TaskParams.ThresholdScore = sdk.NewInt(threshold)
			gs[oracletypes.ModuleName] = enc.Marshaler.MustMarshalJSON(&og)
		}}
	c := NewChain(cfg, out)
	c.Rng = rng
	out.Genesis(c, D{"profile": "oracle"})
	if !c.Advance(5 * time.Second) {
		return c
	}
	contracts := []string{"c1", "c2", "c"}
	functions := []string{"f", "1f", "g"}
	scores := []int64{0, 0, 1, 49, 50, 51, 99, 100, 100, 101, -1, 30, 70}
	for i := 0; i < nOps && c.Halted == ""; i++ {
		k := c.Oracle()
		ctx := c.Ctx()
		ops := k.GetAllOperators(ctx)
		who := rng.Intn(cfg.NAcc)
		ac := c.Accts[who]
		amtChoices := []int64{1, 100, 200, minColl, minColl + 1, minColl * 2, 777, 50000, 123456}
		amt := amtChoices[rng.Intn(len(amtChoices))]
		coll := c.Coins(amt, Bond)
		if rng.Intn(8) == 0 {
			coll = coll.Add(sdk.NewInt64Coin([]string{"aaa", "zzz"}[rng.Intn(2)], 1+rng.Int63n(500)))
		}
		r := rng.Intn(100)
		switch {
		case r < 25:
			if !c.Advance(time.Duration(1+rng.Intn(10)) * time.Second) {
				return c
			}
		case r < 37:
			big := c.Coins(amt+minColl*int64(1+rng.Intn(3)), Bond)
			if rng.Intn(6) == 0 {
				big = big.Add(sdk.NewInt64Coin("aaa", 1+rng.Int63n(500)))
			}
			c.Do(who, []D{{"t": "oracle.createOperator", "addr": Hex(ac.Addr), "coll": CoinsJ(big), "proposer": Hex(ac.Addr)}},
				oracletypes.NewMsgCreateOperator(ac.Addr, big, ac.Addr, "op"))
		case r < 45:
			if len(ops) > 0 && rng.Intn(4) > 0 {
				o := ops[rng.Intn(len(ops))]
				oa, _ := sdk.AccAddressFromBech32(o.Address)
				// signed by the proposer field (anyone)
				signer := who
				if rng.Intn(2) == 0 {
					signer = c.idxOf(oa, who)
				}
				c.Do(signer, []D{{"t": "oracle.removeOperator", "addr": Hex(oa), "proposer": Hex(c.Accts[signer].Addr)}},
					oracletypes.NewMsgRemoveOperator(oa, c.Accts[signer].Addr))
			} else {
				c.Do(who, []D{{"t": "oracle.removeOperator", "addr": Hex(ac.Addr), "proposer": Hex(ac.Addr)}},
					oracletypes.NewMsgRemoveOperator(ac.Addr, ac.Addr))
			}
		case r < 55:
			signer := who
			if len(ops) > 0 && rng.Intn(5) > 0 {
				oa, _ := sdk.AccAddressFromBech32(ops[rng.Intn(len(ops))].Address)
				signer = c.idxOf(oa, who)
			}
			sa := c.Accts[signer].Addr
			c.Do(signer, []D{{"t": "oracle.addCollateral", "addr": Hex(sa), "amt": CoinsJ(coll)}}, oracletypes.NewMsgAddCollateral(sa, coll))
		case r < 72:
			signer := who
			if len(ops) > 0 && rng.Intn(6) > 0 {
				oa, _ := sdk.AccAddressFromBech32(ops[rng.Intn(len(ops))].Address)
				signer = c.idxOf(oa, who)
			}
			sa := c.Accts[signer].Addr
			n := 1
			if rng.Intn(3) == 0 {
				n = 2 + rng.Intn(2) // several reductions in one block
			}
			for j := 0; j < n; j++ {
				a2 := amtChoices[rng.Intn(len(amtChoices))]
				cc := c.Coins(a2, Bond)
				c.Do(signer, []D{{"t": "oracle.reduceCollateral", "addr": Hex(sa), "amt": CoinsJ(cc)}}, oracletypes.NewMsgReduceCollateral(sa, cc))
			}
		case r < 76:
			signer := who
			if len(ops) > 0 && rng.Intn(6) > 0 {
				oa, _ := sdk.AccAddressFromBech32(ops[rng.Intn(len(ops))].Address)
				signer = c.idxOf(oa, who)
			}
			sa := c.Accts[signer].Addr
			c.Do(signer, []D{{"t": "oracle.withdrawReward", "addr": Hex(sa)}}, oracletypes.NewMsgWithdrawReward(sa))
		case r < 84:
			contract := contracts[rng.Intn(len(contracts))]
			function := functions[rng.Intn(len(functions))]
			bounty := c.Coins([]int64{1, 10, 1000, 99999, 3}[rng.Intn(5)], Bond)
			if rng.Intn(3) == 0 {
				bounty = bounty.Add(sdk.NewInt64Coin("aaa", 1+rng.Int63n(50)))
			}
			if rng.Intn(5) == 0 {
				bounty = bounty.Add(sdk.NewInt64Coin("zzz", 1+rng.Int63n(5000)))
			}
			wait := []int64{0, 1, 2, 3, 4, -1}[rng.Intn(6)]
			valid := []time.Duration{0, time.Second, 20 * time.Second, time.Hour}[rng.Intn(4)]
			res := c.Do(who, []D{{"t": "oracle.createTask", "contract": contract, "function": function, "bounty": CoinsJ(bounty), "wait": wait,
				"valid": fmt.Sprint(valid.Nanoseconds()), "creator": Hex(ac.Addr)}},
				oracletypes.NewMsgCreateTask(contract, function, bounty, "d", ac.Addr, wait, valid))
			// a burst of responses from several current operators, boundary scores included
			if res.Code == 0 && len(ops) > 0 && rng.Intn(3) > 0 {
				perm := rng.Perm(len(ops))
				nresp := 1 + rng.Intn(len(ops))
				for _, pi := range perm[:nresp] {
					oa, _ := sdk.AccAddressFromBech32(ops[pi].Address)
					si := c.idxOf(oa, -1)
					if si < 0 {
						continue
					}
					score := []int64{0, 0, 1, 20, 49, 50, 51, 80, 99, 100}[rng.Intn(10)]
					c.Do(si, []D{{"t": "oracle.respond", "contract": contract, "function": function, "score": score, "op": Hex(oa)}},
						oracletypes.NewMsgTaskResponse(contract, function, score, oa))
				}
			}
		case r < 96:
			tasks := k.GetAllTasks(ctx)
			contract := contracts[rng.Intn(len(contracts))]
			function := functions[rng.Intn(len(functions))]
			if len(tasks) > 0 && rng.Intn(8) > 0 {
				t := tasks[rng.Intn(len(tasks))]
				contract, function = t.Contract, t.Function
			}
			signer := who
			if len(ops) > 0 && rng.Intn(8) > 0 {
				oa, _ := sdk.AccAddressFromBech32(ops[rng.Intn(len(ops))].Address)
				signer = c.idxOf(oa, who)
			}
			sa := c.Accts[signer].Addr
			score := scores[rng.Intn(len(scores))]
			c.Do(signer, []D{{"t": "oracle.respond", "contract": contract, "function": function, "score": score, "op": Hex(sa)}},
				oracletypes.NewMsgTaskResponse(contract, function, score, sa))
		default:
			tasks := k.GetAllTasks(ctx)
			contract := contracts[rng.Intn(len(contracts))]
			function := functions[rng.Intn(len(functions))]
			signer := who
			if len(tasks) > 0 && rng.Intn(8) > 0 {
				t := tasks[rng.Intn(len(tasks))]
				contract, function = t.Contract, t.Function
				if rng.Intn(4) > 0 {
					ca, _ := sdk.AccAddressFromBech32(t.Creator)
					signer = c.idxOf(ca, who)
				}
			}
			force := rng.Intn(2) == 0
			sa := c.Accts[signer].Addr
			c.Do(signer, []D{{"t": "oracle.deleteTask", "contract": contract, "function": function, "force": force, "deleter": Hex(sa)}},
				oracletypes.NewMsgDeleteTask(contract, function, force, sa))
		}
	}
	// drain: let pending withdrawals and tasks complete
	for i := 0; i < 14 && c.Halted == ""; i++ {
		if !c.Advance(5 * time.Second) {
			break
		}
	}
	if c.Halted == "" && c.InBlock {
		c.End()
	}
	return c
}

func (c *Chain) idxOf(a sdk.AccAddress, dflt int) int {
	for i, ac := range c.Accts {
		if ac.Addr.Equals(a) {
			return i
		}
	}
	return dflt
}
