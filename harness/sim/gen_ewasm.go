package sim

// Profile "wasm" (C17): is eWASM execution metered?
//
// x/cvm/keeper/keeper.go Tx runs a contract with isEWASM=true on Burrow's wasm engine (perlin-network/life) —
// `lifeExec.NewVirtualMachine(code, config, resolver, nil)`: no gas policy, no gas limit, and nothing decrements
// `callParams.Gas`.  The profile makes the smallest valid WebAssembly module by hand: no imports, one function of type
// () -> () exported as "main" (the entry point Burrow looks up), whose body counts a local down from N:
//
//	(func (export "main") (local i32)
//	  i32.const N  local.set 0
//	  loop  local.get 0  i32.const 1  i32.sub  local.tee 0  br_if 0  end)
//
// five instructions per iteration.  It is delivered, as a signed transaction through DeliverTx on the real application,
//   - as MsgDeploy{IsEWASM: true}: the module is the constructor, `main` runs N iterations, the (empty) output becomes
//     the new account's WASM code;
//   - as MsgDeploy{IsEWASM: true, IsRuntime: true} (the module itself becomes the account's code, nothing runs) followed
//     by a MsgCall of the new contract: `main` runs N iterations in the call path;
// for N = 1,000 and N = 3,000,000 (and one value in between drawn per history), under several gas limits.  As a control the
// same counting loop is delivered as EVM init code (six instructions per iteration, 26 gas) for N = 1,000 and N = 30,000.
// One line per delivery: k="wasm", the engine, the path, the loop count, a lower bound on the instructions executed,
// gasWanted, gasUsed, wall-clock nanoseconds, result code, and `ref`: the delivery of the 1,000-iteration run of the
// same engine, path and gas limit.  A watchdog bounds every delivery (the loops are finite; the watchdog is for the harness).

import (
	"fmt"
	"time"

	sdk "github.com/cosmos/cosmos-sdk/types"

	cvmtypes "github.com/certikfoundation/shentu/x/cvm/types"
)

func init() {
	Profiles["wasm"] = Profile{Mods: nil, Run: WasmProfile}
}

func uleb(v uint64) []byte {
	var out []byte
	for {
		b := byte(v & 0x7f)
		v >>= 7
		if v != 0 {
			out = append(out, b|0x80)
		} else {
			return append(out, b)
		}
	}
}

func sleb(v int64) []byte {
	var out []byte
	for {
		b := byte(v & 0x7f)
		v >>= 7
		if (v == 0 && b&0x40 == 0) || (v == -1 && b&0x40 != 0) {
			return append(out, b)
		}
		out = append(out, b|0x80)
	}
}

func wasmSection(id byte, body []byte) []byte {
	return append(append([]byte{id}, uleb(uint64(len(body)))...), body...)
}

// WasmLoopModule is a complete WebAssembly binary whose exported function "main" loops n times (n >= 1).
func WasmLoopModule(n int32) []byte {
	body := []byte{0x01, 0x01, 0x7f} // one group of locals: 1 x i32
	body = append(body, 0x41)        // i32.const n
	body = append(body, sleb(int64(n))...)
	body = append(body,
		0x21, 0x00, // local.set 0
		0x03, 0x40, // loop (no result)
		0x20, 0x00, //   local.get 0
		0x41, 0x01, //   i32.const 1
		0x6b,       //   i32.sub
		0x22, 0x00, //   local.tee 0
		0x0d, 0x00, //   br_if 0 (back to the loop head while the counter is not zero)
		0x0b, // end loop
		0x0b) // end function
	code := append([]byte{0x01}, append(uleb(uint64(len(body))), body...)...)            // one function body
	m := []byte{0x00, 0x61, 0x73, 0x6d, 0x01, 0x00, 0x00, 0x00}                          // "\0asm", version 1
	m = append(m, wasmSection(1, []byte{0x01, 0x60, 0x00, 0x00})...)                     // types: one, () -> ()
	m = append(m, wasmSection(3, []byte{0x01, 0x00})...)                                 // functions: one, of type 0
	m = append(m, wasmSection(7, []byte{0x01, 0x04, 'm', 'a', 'i', 'n', 0x00, 0x00})...) // exports: "main" = function 0
	m = append(m, wasmSection(10, code)...)
	return m
}

// EvmLoopInit is EVM init code that counts n down to zero (n < 2^24) and deploys empty code: the control of the profile.
func EvmLoopInit(n uint32) []byte {
	// PUSH3 n ; JUMPDEST ; PUSH1 1 ; SWAP1 ; SUB ; DUP1 ; PUSH1 4 ; JUMPI ; STOP
	return []byte{0x62, byte(n >> 16), byte(n >> 8), byte(n), 0x5b, 0x60, 0x01, 0x90, 0x03, 0x80, 0x60, 0x04, 0x57, 0x00}
}

const wasmWatchdog = 240 * time.Second

// deliverTimed runs one delivery under the watchdog.
func (c *Chain) deliverTimed(who int, gas uint64, msg sdk.Msg) (res TxResult, ns int64, timedOut bool) {
	done := make(chan TxResult, 1)
	t0 := time.Now()
	go func() { done <- c.Deliver(who, gas, DefaultFee, msg) }()
	select {
	case res = <-done:
		return res, time.Since(t0).Nanoseconds(), false
	case <-time.After(wasmWatchdog):
		return TxResult{Code: 99997, Codespace: "harness", Log: "watchdog"}, time.Since(t0).Nanoseconds(), true
	}
}

func deployedAddr(res TxResult) sdk.AccAddress {
	if res.Code != 0 {
		return nil
	}
	var md sdk.TxMsgData
	if md.Unmarshal(res.Data) == nil && len(md.Data) > 0 {
		var resp cvmtypes.MsgDeployResponse
		if resp.Unmarshal(md.Data[0].Data) == nil && len(resp.Result) == 20 {
			return sdk.AccAddress(resp.Result)
		}
	}
	return nil
}

func WasmProfile(seed int64, out *Recorder, nOps int) *Chain {
	rng := newRng(seed ^ 0x77a5)
	cfg := GenCfg{Seed: seed, H0: 5, T0: time.Unix(1600000000, 0).UTC(), NAcc: 4, NVal: 1, NCert: 1, AdminIdx: 3,
		Balance: 1000000000000, ValStake: []int64{1000000000}}
	c := NewChain(cfg, out)
	c.Rng = rng
	out.Genesis(c, D{"profile": "wasm"})
	if !c.Advance(5 * time.Second) {
		return c
	}
	type key struct {
		vm, path string
		gas      uint64
	}
	ref := map[key]D{}
	// run delivers one execution of the counting loop and writes its line; false when the watchdog fired
	run := func(vm, path string, loops uint32, gas uint64) bool {
		who := rng.Intn(cfg.NAcc)
		caller := c.Accts[who].Addr.String()
		var res TxResult
		var ns int64
		var timedOut bool
		perIter := uint64(5)
		switch {
		case vm == "evm":
			perIter = 6
			m := cvmtypes.NewMsgDeploy(caller, 0, EvmLoopInit(loops), "", nil, false, false)
			res, ns, timedOut = c.deliverTimed(who, gas, &m)
		case path == "deploy":
			m := cvmtypes.NewMsgDeploy(caller, 0, WasmLoopModule(int32(loops)), "", nil, true, false)
			res, ns, timedOut = c.deliverTimed(who, gas, &m)
		default: // "call": the module becomes the account's code as it is (IsRuntime), then the contract is called
			m := cvmtypes.NewMsgDeploy(caller, 0, WasmLoopModule(int32(loops)), "", nil, true, true)
			pre := c.Deliver(who, 3000000, DefaultFee, &m)
			addr := deployedAddr(pre)
			if addr == nil {
				out.emit(D{"k": "wasm", "vm": vm, "path": "call-setup", "loops": loops, "instrs": 0, "gasWanted": pre.GasWanted, "gasUsed": pre.GasUsed,
					"ns": 0, "code": pre.Code, "cs": pre.Codespace, "log": trunc(pre.Log, 200), "h": c.Height})
				return true
			}
			call := cvmtypes.NewMsgCall(caller, addr.String(), 0, nil)
			res, ns, timedOut = c.deliverTimed(who, gas, &call)
		}
		line := D{"k": "wasm", "vm": vm, "path": path, "loops": loops, "instrs": perIter * uint64(loops), "gasWanted": res.GasWanted, "gasUsed": res.GasUsed,
			"gasLimit": gas, "ns": ns, "code": res.Code, "cs": res.Codespace, "h": c.Height, "timeout": timedOut}
		if res.Code != 0 {
			line["log"] = trunc(res.Log, 200)
		}
		k := key{vm, path, gas}
		if r, ok := ref[k]; ok {
			line["ref"] = r
		} else if res.Code == 0 {
			ref[k] = D{"loops": loops, "gasUsed": res.GasUsed, "code": res.Code, "ns": ns}
		}
		out.emit(line)
		if timedOut {
			c.Halted = fmt.Sprintf("watchdog: %s %s with %d iterations did not return within %v", vm, path, loops, wasmWatchdog)
		}
		return !timedOut
	}
	mid := []uint32{10000, 77777, 250000, 1000000}[rng.Intn(4)]
	gases := []uint64{3000000, []uint64{200000, 500000, 1000000}[rng.Intn(3)]}
	for _, gas := range gases {
		for _, path := range []string{"deploy", "call"} {
			for _, loops := range []uint32{1000, 3000000, mid} {
				if !run("wasm", path, loops, gas) {
					return c
				}
			}
		}
		if !c.Advance(5 * time.Second) {
			return c
		}
	}
	// the control: the EVM charges the same loop by the instruction
	for _, loops := range []uint32{1000, 30000} {
		if !run("evm", "deploy", loops, 3000000) {
			return c
		}
	}
	c.Advance(5 * time.Second)
	return c
}
