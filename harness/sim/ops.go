package sim

import (
	"time"

	sdk "github.com/cosmos/cosmos-sdk/types"
)

// D is a JSON object under construction.
type D = map[string]interface{}

const DefaultGas = 2000000
const DefaultFee = 5000

// Do delivers one signed transaction carrying msgs and records it with descs.
func (c *Chain) Do(signer int, descs []D, msgs ...sdk.Msg) TxResult {
	return c.DoGas(signer, DefaultGas, DefaultFee, descs, nil, msgs...)
}

func (c *Chain) DoGas(signer int, gas uint64, fee int64, descs []D, extra D, msgs ...sdk.Msg) TxResult {
	if !c.InBlock {
		panic("tx outside block")
	}
	res := c.Deliver(signer, gas, fee, msgs...)
	if c.Out != nil {
		ex := D{"fee": fee, "gas": gas, "signerAddr": Hex(c.Accts[signer].Addr)}
		for k, v := range extra {
			ex[k] = v
		}
		c.Out.Tx(c, c.Accts[signer].Name, descs, res, ex)
	}
	return res
}

// Advance ends the current block and begins the next one dt later.
// It returns false when block processing aborted (the chain has halted).
func (c *Chain) Advance(dt time.Duration) bool {
	if c.InBlock {
		if _, pi := c.End(); pi != nil {
			return false
		}
	}
	if pi := c.Begin(dt); pi != nil {
		return false
	}
	return true
}

func (c *Chain) Coins(amt int64, denom string) sdk.Coins {
	return sdk.NewCoins(sdk.NewInt64Coin(denom, amt))
}

// pick helpers
func (c *Chain) Pick(n int) int { return c.Rng.Intn(n) }
func (c *Chain) Chance(p float64) bool { return c.Rng.Float64() < p }
func (c *Chain) PickI64(xs ...int64) int64 { return xs[c.Rng.Intn(len(xs))] }
