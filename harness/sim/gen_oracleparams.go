package sim

// Profile "oracleparams": the oracle's task parameters changed the way a passed parameter-change proposal changes them, and the
// next closing block (C08).
//
// An oracle history is run first (quietly).  On its final state, in cache contexts that are thrown away afterwards, the REAL
// handler of x/params' ParameterChangeProposal is called with a new value of the oracle's task parameters in which epsilon1 or
// epsilon2 is drawn around zero; that is exactly what the governance end-blocker does with a proposal that passed.  When the
// chain ACCEPTS the value, two fresh operators are created, a task is created through the keeper, the operators respond with
// the scores at which the epsilon in question is the whole divisor (score 0 next to a larger low score; score 100), and the
// REAL oracle.EndBlocker is run at the task's closing block under recover.  One line per trial: the value, whether the
// parameter store took it, and how the end-blocker went.  An accepted value under which the end-blocker aborts is a history of
// accepted transactions after which block processing halts.

import (
	"fmt"
	"time"

	sdk "github.com/cosmos/cosmos-sdk/types"
	"github.com/cosmos/cosmos-sdk/x/params"
	paramproposal "github.com/cosmos/cosmos-sdk/x/params/types/proposal"

	"github.com/certikfoundation/shentu/x/oracle"
	oracletypes "github.com/certikfoundation/shentu/x/oracle/types"
)

func init() {
	Profiles["oracleparams"] = Profile{Mods: nil, Run: OracleParamsProfile}
}

func OracleParamsProfile(seed int64, out *Recorder, nOps int) *Chain {
	rng := newRng(seed ^ 0x0e95)
	quiet := NewRecorder(nopWriter{}, nil)
	a := Profiles["oracle"].Run(seed, quiet, nOps)
	out.Reset()
	names := D{}
	for _, ac := range a.Accts {
		names[ac.Name] = Hex(ac.Addr)
	}
	out.emit(D{"k": "genesis", "seed": seed, "h": a.Cfg.H0, "t": nsStr(a.Cfg.T0), "names": names, "profile": "oracleparams", "base": "oracle", "st": D{}})
	halted := a.Halted
	a.Halted = "" // a halt of the base history is reported by the oracle profile itself
	if halted != "" || a.InBlock {
		return a
	}
	ctx0 := a.Ctx()
	ok := a.App.VerifOracleKeeper()
	bk := a.App.VerifBankKeeper()
	pk := a.App.VerifParamsKeeper()
	handler := params.NewParamChangeProposalHandler(pk)
	// the richest account pays for the probe's operators and bounty
	rich := a.Accts[0].Addr
	for _, ac := range a.Accts {
		if bk.GetBalance(ctx0, ac.Addr, Bond).Amount.GT(bk.GetBalance(ctx0, rich, Bond).Amount) {
			rich = ac.Addr
		}
	}
	type trialT struct {
		which int
		val   int64
	}
	trials := []trialT{{1, 0}, {2, 0}, {1, 1}, {2, 1}, {1, -1}, {2, -1}, {1, 1 + rng.Int63n(200)}, {2, 1 + rng.Int63n(200)}}
	for i, tr := range trials {
		ctx, _ := ctx0.CacheContext()
		tp := ok.GetTaskParams(ctx)
		if tr.which == 1 {
			tp.Epsilon1 = sdk.NewInt(tr.val)
		} else {
			tp.Epsilon2 = sdk.NewInt(tr.val)
		}
		bz := a.App.LegacyAmino().MustMarshalJSON(tp)
		prop := paramproposal.NewParameterChangeProposal("task parameters", "probe",
			[]paramproposal.ParamChange{paramproposal.NewParamChange(oracletypes.ModuleName, string(oracletypes.ParamsStoreKeyTaskParams), string(bz))})
		line := D{"k": "oparams", "trial": i, "param": fmt.Sprintf("epsilon%d", tr.which), "value": fmt.Sprint(tr.val), "threshold": tp.ThresholdScore.String()}
		var herr error
		if pi := catch(func() { herr = handler(ctx, prop) }); pi != nil {
			line["accepted"] = false
			line["refusal"] = "panic: " + trunc(pi.Value, 100)
			out.emit(line)
			continue
		}
		if herr != nil {
			line["accepted"] = false
			line["refusal"] = trunc(herr.Error(), 100)
			out.emit(line)
			continue
		}
		now := ok.GetTaskParams(ctx)
		line["accepted"] = true
		line["stored"] = D{"epsilon1": now.Epsilon1.String(), "epsilon2": now.Epsilon2.String()}
		// two fresh operators, the second with more than three times the first's collateral
		minC := ok.GetLockedPoolParams(ctx).MinimumCollateral
		if minC < 1 {
			minC = 1
		}
		small := sdk.AccAddress([]byte(fmt.Sprintf("probe-small-%08d", i)))
		big := sdk.AccAddress([]byte(fmt.Sprintf("probe-large-%08d", i)))
		cs := sdk.NewCoins(sdk.NewInt64Coin(Bond, minC))
		cb := sdk.NewCoins(sdk.NewInt64Coin(Bond, 4*minC+1))
		setup := ""
		step := func(what string, f func() error) {
			if setup != "" {
				return
			}
			var err error
			if pi := catch(func() { err = f() }); pi != nil {
				setup = what + ": panic: " + trunc(pi.Value, 80)
			} else if err != nil {
				setup = what + ": " + trunc(err.Error(), 80)
			}
		}
		step("fund", func() error { return bk.SendCoins(ctx, rich, small, cs) })
		step("fund", func() error { return bk.SendCoins(ctx, rich, big, cb) })
		step("operator", func() error { return ok.CreateOperator(ctx, small, cs, small, "probe-small") })
		step("operator", func() error { return ok.CreateOperator(ctx, big, cb, big, "probe-large") })
		contract, function := "probe-contract", fmt.Sprintf("f%d", i)
		step("task", func() error {
			return ok.CreateTask(ctx, contract, function, sdk.NewCoins(sdk.NewInt64Coin(Bond, 1000)), "probe", ctx.BlockTime().Add(time.Hour), rich, 1)
		})
		if tr.which == 1 {
			// below the threshold, not the minimum-score regime: the response with score 0 is weighted by amplifier*collateral/(0+epsilon1)
			step("respond", func() error { return ok.RespondToTask(ctx, contract, function, 0, small) })
			step("respond", func() error { return ok.RespondToTask(ctx, contract, function, 10, big) })
		} else {
			// at or above the threshold: the response with score 100 is weighted by amplifier*collateral/(100-100+epsilon2)
			step("respond", func() error { return ok.RespondToTask(ctx, contract, function, 100, small) })
			step("respond", func() error { return ok.RespondToTask(ctx, contract, function, 90, big) })
		}
		if setup != "" {
			line["setup"] = setup
			out.emit(line)
			continue
		}
		closing := int64(0)
		if t, err := ok.GetTask(ctx, contract, function); err == nil {
			closing = t.ClosingBlock
		}
		line["closing"] = closing
		ectx := ctx.WithBlockHeight(closing)
		endblock := "ok"
		if pi := catch(func() { oracle.EndBlocker(ectx, ok) }); pi != nil {
			endblock = "panic: " + trunc(pi.Value, 120)
		}
		line["endblock"] = endblock
		if t, err := ok.GetTask(ectx, contract, function); err == nil {
			line["status"] = t.Status.String()
			line["result"] = t.Result.String()
		}
		out.emit(line)
	}
	return a
}
