package sim

// Structured random programs: expressions, stack-neutral statements, forward
// jumps, bounded loops, ending in RETURN / REVERT / STOP / INVALID.

import (
	"math/big"
	"math/rand"
)

type sgen struct {
	r     *rand.Rand
	a     *vmAsm
	c     *VMCase
	depth int // statically known stack depth
	fuel  int // remaining statements
}

func (g *sgen) op(b byte, pops, pushes int) {
	g.a.op(b)
	g.depth += pushes - pops
}
func (g *sgen) push(v *big.Int) { g.a.push(v); g.depth++ }
func (g *sgen) pushU(v uint64)  { g.a.pushU(v); g.depth++ }

var sBin = []byte{0x01, 0x02, 0x03, 0x04, 0x05, 0x06, 0x07, 0x10, 0x11, 0x12, 0x13, 0x14, 0x16, 0x17, 0x18}
var sEnv = []byte{0x30, 0x32, 0x33, 0x34, 0x36, 0x38, 0x3a, 0x3d, 0x41, 0x42, 0x43, 0x44, 0x45, 0x46, 0x58, 0x59, 0x5a}

func (g *sgen) dataOff(n int) uint64 {
	if g.r.Intn(80) == 0 { // beyond the end: the implementation raises an error here
		return uint64(n + 1 + g.r.Intn(40))
	}
	if n == 0 {
		return 0
	}
	return uint64(g.r.Intn(n + 1))
}

// expr leaves exactly one more word on the stack
func (g *sgen) expr(d int) {
	r := g.r
	if d <= 0 || r.Intn(3) == 0 {
		switch r.Intn(9) {
		case 0, 1, 2:
			g.push(randWord(r))
		case 3:
			g.op(sEnv[r.Intn(len(sEnv))], 0, 1)
		case 4:
			g.push(randSmallOff(r))
			g.op(0x51, 1, 1) // MLOAD
		case 5:
			g.pushU(uint64(r.Intn(4)))
			g.op(0x54, 1, 1) // SLOAD
		case 6:
			g.pushU(g.dataOff(len(g.c.Input)))
			g.op(0x35, 1, 1) // CALLDATALOAD
		case 7:
			if g.depth > 0 {
				n := 1 + r.Intn(imin(g.depth, 16))
				g.op(byte(0x80+n-1), 0, 1) // DUPn
			} else {
				g.pushU(uint64(r.Intn(100)))
			}
		default:
			g.pushU(uint64(r.Intn(100))) // size
			g.push(randSmallOff(r))      // offset
			g.op(0x20, 2, 1)             // SHA3
		}
		return
	}
	switch r.Intn(10) {
	case 0, 1, 2, 3, 4:
		g.expr(d - 1)
		g.expr(d - 1)
		g.op(sBin[r.Intn(len(sBin))], 2, 1)
	case 5:
		g.expr(d - 1)
		g.op([]byte{0x15, 0x19}[r.Intn(2)], 1, 1)
	case 6:
		g.expr(d - 1)
		g.expr(d - 1)
		g.expr(d - 1)
		g.op([]byte{0x08, 0x09}[r.Intn(2)], 3, 1)
	case 7: // shifts, BYTE, SIGNEXTEND: small first operand most of the time
		g.expr(d - 1)
		if r.Intn(4) == 0 {
			g.expr(d - 1)
		} else {
			g.pushU(uint64([]int{0, 1, 7, 8, 30, 31, 32, 100, 255, 256}[r.Intn(10)]))
		}
		g.op([]byte{0x0b, 0x1a, 0x1b, 0x1c, 0x1d}[r.Intn(5)], 2, 1)
	case 8: // EXP with a small exponent (the implementation computes the exact power)
		g.pushU(uint64(r.Intn(300)))
		g.expr(d - 1)
		g.op(0x0a, 2, 1)
	default:
		g.expr(d - 1)
		g.expr(d - 1)
		g.op(byte(0x90), 0, 0) // SWAP1
		g.op(0x03, 2, 1)
	}
}

func (g *sgen) block(nest int) {
	n := 1 + g.r.Intn(4)
	for i := 0; i < n && g.fuel > 0; i++ {
		g.stmt(nest)
	}
}

// stmt is stack neutral
func (g *sgen) stmt(nest int) {
	r := g.r
	g.fuel--
	switch x := r.Intn(20); {
	case x < 3: // MSTORE
		g.expr(2)
		g.push(randSmallOff(r))
		g.op(0x52, 2, 0)
	case x < 4: // MSTORE8
		g.expr(1)
		g.push(randSmallOff(r))
		g.op(0x53, 2, 0)
	case x < 6: // SSTORE
		g.expr(2)
		g.pushU(uint64(r.Intn(4)))
		g.op(0x55, 2, 0)
	case x < 7: // store zero / same value again
		g.pushU(0)
		g.pushU(uint64(r.Intn(4)))
		g.op(0x55, 2, 0)
	case x < 8:
		g.expr(2)
		g.op(0x50, 1, 0)
	case x < 10: // LOGn
		n := r.Intn(5)
		for i := 0; i < n; i++ {
			g.expr(1)
		}
		g.pushU(uint64(r.Intn(70)))
		g.push(randSmallOff(r))
		g.op(byte(0xa0+n), 2+n, 0)
	case x < 11: // CALLDATACOPY
		g.pushU(uint64(r.Intn(70)))
		g.pushU(g.dataOff(len(g.c.Input)))
		g.push(randSmallOff(r))
		g.op(0x37, 3, 0)
	case x < 12: // CODECOPY (code length is not known yet: stay inside the first bytes most of the time)
		g.pushU(uint64(r.Intn(70)))
		if r.Intn(40) == 0 {
			g.pushU(uint64(3000 + r.Intn(100)))
		} else {
			g.pushU(uint64(r.Intn(20)))
		}
		g.push(randSmallOff(r))
		g.op(0x39, 3, 0)
	case x < 13: // RETURNDATACOPY: the return buffer is always empty in a single frame
		if r.Intn(15) == 0 {
			g.pushU(uint64(r.Intn(3)))
			g.pushU(uint64(r.Intn(3)))
		} else {
			g.pushU(0)
			g.pushU(0)
		}
		g.push(randSmallOff(r))
		g.op(0x3e, 3, 0)
	case x < 14: // stack traffic
		k := 1 + r.Intn(5)
		for i := 0; i < k; i++ {
			g.push(randWord(r))
		}
		for i, m := 0, r.Intn(6); i < m; i++ {
			if r.Intn(2) == 0 {
				n := 1 + r.Intn(imin(g.depth, 16))
				g.op(byte(0x80+n-1), 0, 1)
				k++
			} else if g.depth >= 2 {
				n := 1 + r.Intn(imin(g.depth-1, 16))
				if n <= k-1 { // only among the words this statement pushed: loop counters stay intact
					g.op(byte(0x90+n-1), 0, 0)
				}
			}
		}
		for i := 0; i < k; i++ {
			g.op(0x50, 1, 0)
		}
	case x < 16 && nest < 2: // if
		l := g.a.newLabel()
		g.expr(2)
		g.a.pushLabel(l)
		g.depth++
		g.op(0x57, 2, 0)
		g.block(nest + 1)
		g.a.label(l)
	case x < 17 && nest < 2: // forward jump over dead bytes
		l := g.a.newLabel()
		g.a.pushLabel(l)
		g.depth++
		g.op(0x56, 1, 0)
		for i, m := 0, r.Intn(6); i < m; i++ {
			b := byte(r.Intn(256))
			if b >= 0x60 && b <= 0x7f {
				b = 0x5b
			}
			g.a.op(b)
		}
		if r.Intn(40) == 0 {
			g.a.op(0x60) // swallows the JUMPDEST as push data: invalid destination
		}
		g.a.label(l)
	case x < 19 && nest < 2: // bounded loop with a counter
		l := g.a.newLabel()
		g.pushU(uint64(1 + r.Intn(4)))
		g.a.label(l)
		g.block(nest + 1)
		g.pushU(1)
		g.op(0x90, 0, 0)
		g.op(0x03, 2, 1)
		g.op(0x80, 0, 1)
		g.a.pushLabel(l)
		g.depth++
		g.op(0x57, 2, 0)
		g.op(0x50, 1, 0)
	default:
		g.op(0x5b, 0, 0)
	}
}

func GenStructured(id int64) *VMCase {
	r := newRng(id)
	c := baseCase(id, "structured", r)
	g := &sgen{r: r, a: newAsm(), c: c, fuel: 3 + r.Intn(22)}
	if r.Intn(40) == 0 { // a stack filled to just below, exactly at, or just beyond the 1024-word limit
		n := uint64(1018 + r.Intn(10))
		pushing := []byte{0x30, 0x33, 0x58, 0x59, 0x5a, 0x80, 0x36}[r.Intn(7)] // ADDRESS CALLER PC MSIZE GAS DUP1 CALLDATASIZE
		g.a.pushN(2, new(big.Int).SetUint64(n))
		g.a.op(0x5b)                         // pc 3
		g.a.op(pushing, 0x90)                // one more item under the counter
		g.a.op(0x60, 0x01, 0x90, 0x03, 0x80) // counter - 1, kept twice
		g.a.op(0x60, 0x03, 0x57)             // loop while it is not zero
		g.depth = 3                          // at least; the body below works on the top items only
		g.fuel = 1 + r.Intn(4)
	}
	for i, n := 0, r.Intn(4); i < n; i++ { // locals
		g.push(randWord(r))
	}
	for g.fuel > 0 {
		g.stmt(0)
	}
	if r.Intn(25) == 0 && g.depth < 3 { // an instruction that underflows
		g.a.op(sBin[r.Intn(len(sBin))])
	}
	switch r.Intn(10) {
	case 0, 1, 2, 3, 4:
		g.pushU(uint64(r.Intn(100)))
		g.push(randSmallOff(r))
		g.a.op(0xf3)
	case 5, 6:
		g.pushU(uint64(r.Intn(100)))
		g.push(randSmallOff(r))
		g.a.op(0xfd)
	case 7:
		g.a.op(0x00)
	case 8:
		g.a.op(0xfe)
	default: // run off the end of the code
	}
	c.Code = g.a.bytes()
	pickGas(c, r, true)
	return c
}

func imin(a, b int) int {
	if a < b {
		return a
	}
	return b
}
