package sim

// VM engine (C16/C17/C18): run one generated program on the REAL interpreter
// (/repo/vm on Burrow v0.31.0) against an in-memory state and record everything
// the Lean model has to reproduce.  No cosmos app is involved.

import (
	"encoding/hex"
	"fmt"
	"math/big"
	"reflect"
	"sort"
	"strconv"
	"strings"
	"time"
	"unsafe"

	"github.com/hyperledger/burrow/acm"
	"github.com/hyperledger/burrow/acm/acmstate"
	"github.com/hyperledger/burrow/binary"
	"github.com/hyperledger/burrow/crypto"
	"github.com/hyperledger/burrow/execution/engine"
	"github.com/hyperledger/burrow/execution/errors"
	"github.com/hyperledger/burrow/execution/exec"
	"github.com/hyperledger/burrow/execution/native"

	"github.com/certikfoundation/shentu/vm"
)

// VMCase is one generated execution.
type VMCase struct {
	ID         int64
	Profile    string
	Note       string // generator's description (opcode under test, ...)
	Code       []byte
	Input      []byte
	Gas        int64
	Value      int64
	CallerBal  uint64
	Height     uint64
	Time       int64
	ChainID    string
	PreStorage [][2]binary.Word256
	CalleeBal  uint64      // balance of the callee before the call
	Extra      []VMAccount // further accounts of the pre-state (contracts the program may call)
	UsesExt    bool
	Heavy      bool   // may legitimately exceed the watchdog (EXP with huge operands, giant allocation)
	Nonce      []byte // engine.Options.Nonce: at chain level x/cvm passes the little-endian account sequence number of the sender
	Prior      bool   // before the recorded execution, the same call is made once by ANOTHER sender (with PriorNonce) and committed
	PriorNonce []byte
	CalleeMeta [][]byte // contract metadata of the callee: the code hashes of the contracts it may create (empty: any)
	Expect     string   // JSON object: facts that must hold of the result by construction of the program (profile "create")
}

// VMAccount is an account of the pre- or post-state.
type VMAccount struct {
	Addr    crypto.Address
	Code    []byte
	Balance uint64
	Storage [][2]binary.Word256
	Meta    [][]byte // acm.Account.ContractMeta: permitted code hashes of created contracts
}

type VMLog struct {
	Addr   string
	Topics []string
	Data   string
}

type VMResult struct {
	Outcome      string
	Ret          []byte
	GasLeft      string
	Storage      [][2]string
	Logs         []VMLog
	Post         string // JSON array of every account after the call
	Detail       string
	PreDump      string // JSON array of every account before the recorded execution, when it is not the generated pre-state (Prior)
	PriorOutcome string
	Fresh        [][3]string // (creator, sequence number, address): the CREATE addresses the interpreter derived (sha256 based)
	Mem          []int64     // final size in bytes of the memory of every frame the interpreter opened, in order of creation (the first is the top frame's; at most vmMemFrames are listed)
}

const vmMemFrames = 256

// vmMemoryProvider is the interpreter's own memory provider (vm.wrappedDDMP: a 16 MiB dynamic memory inside the gas
// bookkeeping wrapper), read out of a CVM built with default options.  The harness wraps it only to keep a reference to the
// memory of every frame, so that the final size (what MSIZE would push) can be reported after the run (C17
// memory_is_paid_for).  The interpreter insists on its own unexported memory type, so the provider cannot be replaced, only
// observed; what it returns is handed on unchanged.
var vmMemoryProvider = func() func(errors.Sink) engine.Memory {
	cvm0 := vm.NewCVM(engine.Options{Natives: native.MustDefaultNatives()})
	f := reflect.ValueOf(cvm0).Elem().FieldByName("options").FieldByName("MemoryProvider")
	return reflect.NewAt(f.Type(), unsafe.Pointer(f.UnsafeAddr())).Elem().Interface().(func(errors.Sink) engine.Memory)
}()

// ---- the chain's storage convention on top of Burrow's MemoryState ----------
// x/cvm/keeper/state.go: GetStorage of an absent slot returns 32 zero bytes,
// SetStorage of an all-zero value deletes the slot.  (Burrow's MemoryState returns
// nil for an absent slot, which changes gasSStore's classification.)
type vmState struct{ *acmstate.MemoryState }

func (s vmState) GetStorage(a crypto.Address, k binary.Word256) ([]byte, error) {
	v, err := s.MemoryState.GetStorage(a, k)
	if err != nil {
		// Burrow's MemoryState refuses to read the storage of an account it does not hold (the account a CREATE is
		// constructing exists in the interpreter's cache only); the keeper's store answers 32 zero bytes for any absent slot
		return binary.Zero256.Bytes(), nil
	}
	if v == nil {
		return binary.Zero256.Bytes(), nil
	}
	return v, nil
}

func (s vmState) SetStorage(a crypto.Address, k binary.Word256, v []byte) error {
	zero := true
	for _, b := range v {
		if b != 0 {
			zero = false
			break
		}
	}
	if zero {
		if m, ok := s.MemoryState.Storage[a]; ok {
			delete(m, k)
		}
		return nil
	}
	return s.MemoryState.SetStorage(a, k, v)
}

// ---- blockchain stub (same shape as vm_test.go's) -----------------------------
type vmChain struct {
	height  uint64
	t       time.Time
	chainid string
}

func (b *vmChain) LastBlockHeight() uint64  { return b.height }
func (b *vmChain) LastBlockTime() time.Time { return b.t }
func (b *vmChain) ChainID() string          { return b.chainid }
func (b *vmChain) BlockHash(h uint64) ([]byte, error) {
	if h > b.height {
		return nil, errors.Codes.InvalidBlockNumber
	}
	bs := make([]byte, 32)
	for i := 0; i < 8; i++ {
		bs[31-i] = byte(h >> (8 * uint(i)))
	}
	return bs, nil
}

// ---- event sink: records LOGs in emission order --------------------------------
type vmSink struct {
	logs  []VMLog
	calls [][2]crypto.Address // (caller, callee) of every frame opened by engine.Call, in order of completion
}

func (s *vmSink) Call(ev *exec.CallEvent, _ *errors.Exception) error {
	if ev != nil && ev.CallData != nil && len(s.calls) < 1<<16 {
		s.calls = append(s.calls, [2]crypto.Address{ev.CallData.Caller, ev.CallData.Callee})
	}
	return nil
}
func (s *vmSink) Print(*exec.PrintEvent) error { return nil }
func (s *vmSink) Log(l *exec.LogEvent) error {
	v := VMLog{Addr: hex.EncodeToString(l.Address.Bytes()), Data: hex.EncodeToString(l.Data)}
	for _, t := range l.Topics {
		v.Topics = append(v.Topics, hex.EncodeToString(t.Bytes()))
	}
	s.logs = append(s.logs, v)
	return nil
}

var vmNatives = native.MustDefaultNatives()

var VMCaller = engine.AddressFromName("verif-caller")
var VMCallee = engine.AddressFromName("verif-callee")
var VMCaller2 = engine.AddressFromName("verif-caller-2") // the other sender of a Prior execution

func vmOutcome(err error) string {
	if err == nil {
		return "ok"
	}
	code := errors.GetCode(err)
	switch code {
	case errors.Codes.ExecutionReverted:
		return "revert"
	case errors.Codes.InsufficientGas:
		return "outofgas"
	}
	return "exception:" + code.Name
}

func readStorage(st vmState, a crypto.Address) [][2]string {
	var out [][2]string
	for k, v := range st.MemoryState.Storage[a] {
		w := binary.LeftPadWord256(v)
		if w == binary.Zero256 {
			continue
		}
		out = append(out, [2]string{hex.EncodeToString(k.Bytes()), hex.EncodeToString(w.Bytes())})
	}
	sort.Slice(out, func(i, j int) bool { return out[i][0] < out[j][0] })
	return out
}

// dumpWorld renders every account of the state, sorted by address.
func dumpWorld(st vmState) string {
	var addrs []crypto.Address
	for a := range st.MemoryState.Accounts {
		addrs = append(addrs, a) // includes Burrow's global-permissions account at the zero address
	}
	sort.Slice(addrs, func(i, j int) bool { return addrs[i].String() < addrs[j].String() })
	var b strings.Builder
	b.WriteByte('[')
	for i, a := range addrs {
		if i > 0 {
			b.WriteByte(',')
		}
		acc := st.MemoryState.Accounts[a]
		b.WriteString(`{"addr":"` + hex.EncodeToString(a.Bytes()) + `","code":"` + hex.EncodeToString(acc.EVMCode) +
			`","balance":` + strconv.FormatUint(acc.Balance, 10))
		if acc.Forebear != nil {
			b.WriteString(`,"forebear":"` + hex.EncodeToString(acc.Forebear.Bytes()) + `"`)
		}
		b.WriteString(`,"storage":`)
		jsonStorage(&b, readStorage(st, a))
		b.WriteByte('}')
	}
	b.WriteByte(']')
	return b.String()
}

func setMeta(st vmState, addr crypto.Address, meta [][]byte) error {
	if len(meta) == 0 {
		return nil
	}
	return engine.UpdateAccount(st, addr, func(a *acm.Account) error {
		for _, h := range meta {
			a.ContractMeta = append(a.ContractMeta, &acm.ContractMeta{CodeHash: h})
		}
		return nil
	})
}

func preAccountJSON(b *strings.Builder, addr crypto.Address, code []byte, bal uint64, storage [][2]binary.Word256, inited bool, meta ...[]byte) {
	b.WriteString(`{"addr":"` + hex.EncodeToString(addr.Bytes()) + `","code":"` + hex.EncodeToString(code) +
		`","balance":` + strconv.FormatUint(bal, 10))
	if inited {
		// engine.InitEVMCode (no parent) records the account as its own forebear
		b.WriteString(`,"forebear":"` + hex.EncodeToString(addr.Bytes()) + `"`)
	}
	if len(meta) > 0 {
		b.WriteString(`,"allowed":[`)
		for i, h := range meta {
			if i > 0 {
				b.WriteByte(',')
			}
			b.WriteString(`"` + hex.EncodeToString(h) + `"`)
		}
		b.WriteString(`]`)
	}
	b.WriteString(`,"storage":`)
	var kv [][2]string
	for _, e := range storage {
		if e[1] == binary.Zero256 {
			continue
		}
		kv = append(kv, [2]string{hex.EncodeToString(e[0].Bytes()), hex.EncodeToString(e[1].Bytes())})
	}
	sort.Slice(kv, func(i, j int) bool { return kv[i][0] < kv[j][0] })
	jsonStorage(b, kv)
	b.WriteByte('}')
}

// RunVMCase executes the case in this goroutine.  A Go panic inside the VM is an
// outcome; fatal runtime errors and hangs are handled by the supervisor in cmd/vmrun.
func RunVMCase(c *VMCase) (res VMResult) {
	st := vmState{acmstate.NewMemoryState()}
	must := func(err error) {
		if err != nil {
			panic(fmt.Sprintf("harness setup: %v", err))
		}
	}
	must(engine.CreateAccount(st, VMCaller))
	must(engine.UpdateAccount(st, VMCaller, func(a *acm.Account) error { return a.AddToBalance(c.CallerBal) }))
	must(engine.CreateAccount(st, VMCallee))
	must(engine.InitEVMCode(st, VMCallee, c.Code))
	if c.CalleeBal > 0 {
		must(engine.UpdateAccount(st, VMCallee, func(a *acm.Account) error { return a.AddToBalance(c.CalleeBal) }))
	}
	for _, kv := range c.PreStorage {
		must(st.SetStorage(VMCallee, kv[0], kv[1].Bytes()))
	}
	must(setMeta(st, VMCallee, c.CalleeMeta))
	for _, x := range c.Extra {
		must(engine.CreateAccount(st, x.Addr))
		if len(x.Code) > 0 {
			must(engine.InitEVMCode(st, x.Addr, x.Code))
		}
		if x.Balance > 0 {
			b := x.Balance
			must(engine.UpdateAccount(st, x.Addr, func(a *acm.Account) error { return a.AddToBalance(b) }))
		}
		for _, kv := range x.Storage {
			must(st.SetStorage(x.Addr, kv[0], kv[1].Bytes()))
		}
		must(setMeta(st, x.Addr, x.Meta))
	}
	sink := &vmSink{}
	gas := big.NewInt(c.Gas)
	params := engine.CallParams{
		Origin: VMCaller,
		Caller: VMCaller,
		Callee: VMCallee,
		Input:  c.Input,
		Value:  *big.NewInt(c.Value),
		Gas:    gas,
	}
	bc := &vmChain{height: c.Height, t: time.Unix(c.Time, 0), chainid: c.ChainID}
	var mems []engine.Memory
	provider := func(sink errors.Sink) engine.Memory {
		m := vmMemoryProvider(sink)
		if len(mems) < vmMemFrames {
			mems = append(mems, m)
		}
		return m
	}
	finish := func() {
		res.Fresh = freshTable(c, sink.calls)
		for _, m := range mems {
			res.Mem = append(res.Mem, m.Capacity().Int64())
		}
		res.GasLeft = gas.String()
		res.Storage = readStorage(st, VMCallee)
		res.Logs = sink.logs
		res.Post = dumpWorld(st)
	}
	defer func() {
		if r := recover(); r != nil {
			res.Outcome = "panic"
			res.Detail = fmt.Sprint(r)
			res.Ret = nil
			finish()
		}
	}()
	if c.Prior {
		// another sender makes the same call first, in a transaction of its own (its own CVM, as x/cvm/keeper.Tx builds one)
		must(engine.CreateAccount(st, VMCaller2))
		must(engine.UpdateAccount(st, VMCaller2, func(a *acm.Account) error { return a.AddToBalance(c.CallerBal) }))
		p2 := params
		p2.Origin, p2.Caller = VMCaller2, VMCaller2
		p2.Gas = big.NewInt(c.Gas)
		p2.Value = *big.NewInt(c.Value)
		_, perr := vm.NewCVM(engine.Options{Natives: vmNatives, Nonce: c.PriorNonce}).Execute(st, bc, &vmSink{}, p2, c.Code)
		res.PriorOutcome = vmOutcome(perr)
		res.PreDump = dumpWorld(st)
	}
	cvm := vm.NewCVM(engine.Options{Natives: vmNatives, Nonce: c.Nonce, MemoryProvider: provider})
	out, err := cvm.Execute(st, bc, sink, params, c.Code)
	res.Outcome = vmOutcome(err)
	if err != nil {
		res.Detail = err.Error()
	}
	res.Ret = out
	finish()
	return res
}

// freshTable reconstructs which CREATE addresses the interpreter derived.  The derivation (crypto.NewContractAddress:
// SHA-256 of creator, transaction nonce and the CVM's sequence counter) is not available to the Lean model, which takes
// it as an input: a table (creator, sequence number) -> address.  Every frame the interpreter opens through engine.Call
// fires a call event carrying caller and callee; a constructor frame is one whose callee is DerivedAddress(caller, k)
// for some k.  k ranges up to the number of frames plus a margin (a CREATE refused for lack of permission advances the
// counter without opening a frame).
func freshTable(c *VMCase, calls [][2]crypto.Address) [][3]string {
	pre := map[crypto.Address]bool{VMCaller: true, VMCallee: true}
	for _, x := range c.Extra {
		pre[x.Addr] = true
	}
	seen := map[[2]crypto.Address]bool{}
	var out [][3]string
	maxSeq := uint64(len(calls))
	if maxSeq > 2048 {
		maxSeq = 2048
	}
	maxSeq += 64
	for _, p := range calls {
		if seen[p] || pre[p[1]] {
			continue
		}
		seen[p] = true
		for k := uint64(1); k <= maxSeq; k++ {
			if DerivedAddressN(p[0], c.Nonce, k) == p[1] {
				out = append(out, [3]string{hex.EncodeToString(p[0].Bytes()), strconv.FormatUint(k, 10), hex.EncodeToString(p[1].Bytes())})
			}
		}
	}
	return out
}

// EthChainID is the number CHAINID pushes for the stub's chain id string.
func EthChainID(s string) *big.Int { return crypto.GetEthChainID(s) }

// ---- JSON line ----------------------------------------------------------------

func jsonStorage(b *strings.Builder, kv [][2]string) {
	b.WriteByte('[')
	for i, e := range kv {
		if i > 0 {
			b.WriteByte(',')
		}
		b.WriteString(`["` + e[0] + `","` + e[1] + `"]`)
	}
	b.WriteByte(']')
}

// VMLine renders the trace line of a case and its result.
func VMLine(c *VMCase, r *VMResult) string {
	var b strings.Builder
	b.Grow(512 + 2*len(c.Code) + 2*len(c.Input) + 2*len(r.Ret))
	b.WriteString(`{"k":"exec","id":`)
	b.WriteString(strconv.FormatInt(c.ID, 10))
	b.WriteString(`,"profile":"` + c.Profile + `","note":` + strconv.Quote(c.Note))
	if c.UsesExt {
		b.WriteString(`,"uses_ext":true`)
	}
	if c.Heavy {
		b.WriteString(`,"heavy":true`)
	}
	if c.Expect != "" {
		b.WriteString(`,"expect":` + c.Expect)
	}
	b.WriteString(`,"code":"` + hex.EncodeToString(c.Code) + `","input":"` + hex.EncodeToString(c.Input) + `"`)
	b.WriteString(`,"gas":` + strconv.FormatInt(c.Gas, 10) + `,"value":` + strconv.FormatInt(c.Value, 10))
	b.WriteString(`,"caller":"` + hex.EncodeToString(VMCaller.Bytes()) + `","callee":"` + hex.EncodeToString(VMCallee.Bytes()) + `"`)
	b.WriteString(`,"env":{"height":` + strconv.FormatUint(c.Height, 10) + `,"time":` + strconv.FormatInt(c.Time, 10) +
		`,"chainid":` + strconv.Quote(c.ChainID) + `,"chainid_num":"` + EthChainID(c.ChainID).Text(16) + `"` +
		`,"caller_balance":` + strconv.FormatUint(c.CallerBal, 10) + `,"origin":"` + hex.EncodeToString(VMCaller.Bytes()) + `"}`)
	b.WriteString(`,"pre_storage":`)
	var pre [][2]string
	for _, kv := range c.PreStorage {
		if kv[1] == binary.Zero256 {
			continue
		}
		pre = append(pre, [2]string{hex.EncodeToString(kv[0].Bytes()), hex.EncodeToString(kv[1].Bytes())})
	}
	sort.Slice(pre, func(i, j int) bool { return pre[i][0] < pre[j][0] })
	jsonStorage(&b, pre)
	if r.PreDump != "" {
		b.WriteString(`,"prior":{"outcome":"` + r.PriorOutcome + `","same_nonce":` + strconv.FormatBool(string(c.Nonce) == string(c.PriorNonce)) + `},"pre":` + r.PreDump)
	} else {
		vmLinePre(&b, c)
	}
	vmLineRes(&b, c, r)
	return b.String()
}

func vmLinePre(b *strings.Builder, c *VMCase) {
	b.WriteString(`,"pre":[`)
	preAccountJSON(b, acm.GlobalPermissionsAddress, nil, 0, nil, false) // exists in every Burrow MemoryState
	b.WriteByte(',')
	preAccountJSON(b, VMCaller, nil, c.CallerBal, nil, false)
	b.WriteByte(',')
	preAccountJSON(b, VMCallee, c.Code, c.CalleeBal, c.PreStorage, true, c.CalleeMeta...)
	for _, x := range c.Extra {
		b.WriteByte(',')
		preAccountJSON(b, x.Addr, x.Code, x.Balance, x.Storage, len(x.Code) > 0, x.Meta...)
	}
	b.WriteString(`]`)
}

func vmLineRes(b *strings.Builder, c *VMCase, r *VMResult) {
	b.WriteString(`,"res":{"outcome":"` + r.Outcome + `","ret":"` + hex.EncodeToString(r.Ret) + `","gasLeft":` + r.GasLeft + `,"storage":`)
	jsonStorage(b, r.Storage)
	b.WriteString(`,"logs":[`)
	for i, l := range r.Logs {
		if i > 0 {
			b.WriteByte(',')
		}
		b.WriteString(`{"addr":"` + l.Addr + `","topics":[`)
		for j, t := range l.Topics {
			if j > 0 {
				b.WriteByte(',')
			}
			b.WriteString(`"` + t + `"`)
		}
		b.WriteString(`],"data":"` + l.Data + `"}`)
	}
	b.WriteString(`]`)
	if r.Post != "" {
		b.WriteString(`,"post":` + r.Post)
	}
	if r.Mem != nil {
		b.WriteString(`,"mem":[`)
		for i, m := range r.Mem {
			if i > 0 {
				b.WriteByte(',')
			}
			b.WriteString(strconv.FormatInt(m, 10))
		}
		b.WriteString(`]`)
	}
	if r.Detail != "" {
		b.WriteString(`,"detail":` + strconv.Quote(r.Detail))
	}
	if len(r.Fresh) > 0 {
		b.WriteString(`,"fresh":[`)
		for i, e := range r.Fresh {
			if i > 0 {
				b.WriteByte(',')
			}
			b.WriteString(`["` + e[0] + `",` + e[1] + `,"` + e[2] + `"]`)
		}
		b.WriteString(`]`)
	}
	b.WriteString("}}\n")
}
