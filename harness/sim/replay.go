package sim

import (
	"bytes"
	"fmt"
	"os"
	"time"

	abci "github.com/tendermint/tendermint/abci/types"
	tmproto "github.com/tendermint/tendermint/proto/tendermint/types"
	dbm "github.com/tendermint/tm-db"

	"github.com/certikfoundation/shentu/app"
)

// Node is a second instance of the application fed with recorded blocks (C10, C20).
type Node struct {
	App    *app.CertiKApp
	DB     dbm.DB
	Dir    string // non-empty: a goleveldb directory (the node can be stopped and restarted)
	Height int64
}

// NewNode initialises an instance from an application state at the given height and time.
func NewNode(appState []byte, h0 int64, t0 time.Time, dir string) *Node {
	SetupConfig()
	enc := app.MakeEncodingConfig()
	var db dbm.DB = dbm.NewMemDB()
	if dir != "" {
		ldb, err := dbm.NewGoLevelDB("application", dir)
		if err != nil {
			panic(err)
		}
		db = ldb
	}
	a := newApp(db, enc)
	a.InitChain(abci.RequestInitChain{ChainId: ChainID, Time: t0, ConsensusParams: consensusParams(), AppStateBytes: appState, InitialHeight: h0})
	a.Commit()
	return &Node{App: a, DB: db, Dir: dir, Height: h0}
}

// newNodeNoCommit initialises an instance the way Tendermint does: InitChain at the initial height, and the first block
// delivered is that height (no commit in between).
func newNodeNoCommit(appState []byte, h0 int64, t0 time.Time) *Node {
	SetupConfig()
	enc := app.MakeEncodingConfig()
	db := dbm.NewMemDB()
	a := newApp(db, enc)
	a.InitChain(abci.RequestInitChain{ChainId: ChainID, Time: t0, ConsensusParams: consensusParams(), AppStateBytes: appState, InitialHeight: h0})
	return &Node{App: a, DB: db, Height: h0}
}

// Restart stops the node and starts a new process image from its database.
func (n *Node) Restart() {
	if n.Dir == "" {
		panic("restart of an in-memory node")
	}
	n.DB.Close()
	ldb, err := dbm.NewGoLevelDB("application", n.Dir)
	if err != nil {
		panic(err)
	}
	n.DB = ldb
	n.App = newApp(ldb, app.MakeEncodingConfig()) // loadLatest = true
}

func (n *Node) Close() {
	n.DB.Close()
	if n.Dir != "" {
		os.RemoveAll(n.Dir)
	}
}

// Apply feeds one recorded block; it returns the application hash, the results and the validator updates.
func (n *Node) Apply(b *BlockRec) (hash []byte, results []TxResult, updates string, pi *PanicInfo) {
	pi = catch(func() {
		n.Height = b.Height
		n.App.BeginBlock(abci.RequestBeginBlock{Header: tmproto.Header{ChainID: ChainID, Height: b.Height, Time: b.Time, LastBlockId: LastBlockID(b.Height)}, LastCommitInfo: b.Commit, ByzantineValidators: b.Evidence})
		for _, tx := range b.Txs {
			r := n.App.DeliverTx(abci.RequestDeliverTx{Tx: tx})
			results = append(results, TxResult{Code: r.Code, Codespace: r.Codespace, Log: r.Log, GasWanted: r.GasWanted, GasUsed: r.GasUsed, Data: r.Data, Events: r.Events})
		}
		res := n.App.EndBlock(abci.RequestEndBlock{Height: b.Height})
		updates = RenderUpdates(res.ValidatorUpdates)
		hash = n.App.Commit().Data
	})
	return
}

// RenderUpdates is a canonical rendering of validator updates.
func RenderUpdates(us []abci.ValidatorUpdate) string {
	out := ""
	for _, u := range us {
		out += fmt.Sprintf("%s:%d,", Hex(u.PubKey.GetEd25519()), u.Power)
	}
	return out
}

// SameResult compares everything a sender (or an indexer) sees of a transaction.
func SameResult(a, b TxResult) string {
	switch {
	case a.Code != b.Code || a.Codespace != b.Codespace:
		return fmt.Sprintf("code %d/%s vs %d/%s", a.Code, a.Codespace, b.Code, b.Codespace)
	case a.Log != b.Log:
		return fmt.Sprintf("log %q vs %q", trunc(a.Log, 120), trunc(b.Log, 120))
	case a.GasUsed != b.GasUsed || a.GasWanted != b.GasWanted:
		return fmt.Sprintf("gas %d/%d vs %d/%d", a.GasUsed, a.GasWanted, b.GasUsed, b.GasWanted)
	case !bytes.Equal(a.Data, b.Data):
		return "data differs"
	case fmt.Sprint(a.Events) != fmt.Sprint(b.Events):
		return "events differ"
	}
	return ""
}

var detBase = []string{"oracle", "gov", "bankvm", "shield", "staking"}

// DeterminismProfile (C10): a history of one of the other profiles is run on node A; node B (a second instance) and node C
// (on a goleveldb database, stopped and restarted from the database at random heights) are fed the same blocks.
func DeterminismProfile(seed int64, out *Recorder, nOps int) *Chain {
	rng := newRng(seed)
	base := detBase[int(uint64(seed)%uint64(len(detBase)))]
	quiet := NewRecorder(nopWriter{}, nil)
	a := Profiles[base].Run(seed, quiet, nOps)
	out.Reset()
	out.emit(D{"k": "genesis", "seed": seed, "h": a.Cfg.H0, "t": nsStr(a.Cfg.T0), "names": D{}, "profile": "determinism", "base": base, "st": D{}})
	dir, err := os.MkdirTemp("", "verif-c10-")
	if err != nil {
		panic(err)
	}
	b := NewNode(a.Genesis, a.Cfg.H0, a.Cfg.T0, "")
	c := NewNode(a.Genesis, a.Cfg.H0, a.Cfg.T0, dir)
	defer b.Close()
	defer c.Close()
	for _, blk := range a.Blocks {
		if blk.AppHash == nil {
			break // node A stopped in this block
		}
		restarted := false
		if rng.Intn(4) == 0 {
			c.Restart()
			restarted = true
		}
		hb, rb, ub, pb := b.Apply(blk)
		hc, rc, uc, pc := c.Apply(blk)
		line := D{"k": "cmp", "h": blk.Height, "a": Hex(blk.AppHash), "b": Hex(hb), "c": Hex(hc), "restarted": restarted, "txs": len(blk.Txs)}
		var diffs []interface{}
		if pb != nil {
			diffs = append(diffs, "node B aborted: "+pb.Value)
		}
		if pc != nil {
			diffs = append(diffs, "node C aborted: "+pc.Value)
		}
		for i := range blk.Results {
			if i < len(rb) {
				if d := SameResult(blk.Results[i], rb[i]); d != "" {
					diffs = append(diffs, fmt.Sprintf("tx %d on B: %s", i, d))
				}
			}
			if i < len(rc) {
				if d := SameResult(blk.Results[i], rc[i]); d != "" {
					diffs = append(diffs, fmt.Sprintf("tx %d on C: %s", i, d))
				}
			}
		}
		if ub != blk.Updates {
			diffs = append(diffs, "validator updates differ on B")
		}
		if uc != blk.Updates {
			diffs = append(diffs, "validator updates differ on C")
		}
		if diffs == nil {
			diffs = []interface{}{}
		}
		line["diffs"] = diffs
		out.emit(line)
		if pb != nil || pc != nil {
			break
		}
	}
	a.Halted = ""
	return a
}

type nopWriter struct{}

func (nopWriter) Write(p []byte) (int, error) { return len(p), nil }
