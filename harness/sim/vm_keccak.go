package sim

import (
	"encoding/hex"
	"fmt"
	"io"

	"github.com/hyperledger/burrow/crypto"
)

// WriteKeccakVectors writes n (data, keccak256(data)) pairs computed by the library the VM uses.
func WriteKeccakVectors(w io.Writer, seed int64, n int) {
	r := newRng(seed)
	lens := []int{0, 1, 31, 32, 33, 55, 56, 64, 135, 136, 137, 271, 272, 273, 1000}
	for i := 0; i < n; i++ {
		l := r.Intn(300)
		if i < len(lens) {
			l = lens[i]
		}
		b := make([]byte, l)
		r.Read(b)
		fmt.Fprintf(w, "{\"k\":\"khash\",\"data\":\"%s\",\"hash\":\"%s\"}\n", hex.EncodeToString(b), hex.EncodeToString(crypto.Keccak256(b)))
	}
}
