package sim

import (
	"github.com/hyperledger/burrow/txs/payload"
	appparams "github.com/certikfoundation/shentu/app/params"
	"github.com/certikfoundation/shentu/app"
	"github.com/hyperledger/burrow/crypto"
	"encoding/binary"
	"math/rand"

	"bytes"
	"encoding/hex"
	"fmt"
	authtypes "github.com/cosmos/cosmos-sdk/x/auth/types"
	"strings"
	"time"

	sdk "github.com/cosmos/cosmos-sdk/types"
	banktypes "github.com/cosmos/cosmos-sdk/x/bank/types"
	stakingtypes "github.com/cosmos/cosmos-sdk/x/staking/types"

	vesting "github.com/certikfoundation/shentu/x/auth/types"
	bankx "github.com/certikfoundation/shentu/x/bank/types"
	cvmtypes "github.com/certikfoundation/shentu/x/cvm/types"
)

// hand-assembled runtime programs with known behaviour (see DESIGN.md, C18)
var vmPrograms = map[string]string{
	"stop":         "00",
	"revert":       "60006000fd",
	"loop":         "5b600056",
	"invalid":      "fe",
	"store":        "60003560005500",                                    // slot0 := calldata[0:32]
	"storeRevert":  "600160005560006000fd",                              // slot0 := 1 ; REVERT
	"storeInvalid": "6001600055fe",                                      // slot0 := 1 ; INVALID
	"suicide":      "33ff",                                              // SELFDESTRUCT(caller)
	"suicideTo":    "600035ff",                                          // SELFDESTRUCT(calldata[0:32])
	"log":          "60006000a000",                                      // LOG0 ; STOP
	"logRevert":    "60006000a060006000fd",                              // LOG0 ; REVERT
	"forward":      "600060006000600034600035" + "5af100",               // CALL(gas, calldata[0:32], callvalue, 0,0,0,0) ; STOP
	"innerCall":    "6000600060006000600060003" + "55af150600160015500", // CALL(gas, calldata[0:32], 0, ...) ; POP ; slot1 := 1 ; STOP
}

// moduleTarget: a module account that exists from genesis (the bank's blocked addresses)
func moduleTarget(rng *rand.Rand) sdk.AccAddress {
	names := []string{"gov", "shield", "distribution", "fee_collector", "bonded_tokens_pool", "not_bonded_tokens_pool", "mint"}
	return authtypes.NewModuleAddress(names[rng.Intn(len(names))])
}

func initCode(runtime []byte) []byte {
	n := byte(len(runtime))
	return append([]byte{0x60, n, 0x60, 0x0c, 0x60, 0x00, 0x39, 0x60, n, 0x60, 0x00, 0xf3}, runtime...)
}

type deployed struct {
	Kind string
	Addr sdk.AccAddress
}

func word32(b []byte) []byte {
	out := make([]byte, 32)
	copy(out[32-len(b):], b)
	return out
}

// BankVMProfile generates histories for C01 / C18 / C19: sends in several denominations, locked sends,
// unlocks, delegations by vesting accounts, contract deployments and calls with value, failing calls.
func BankVMProfile(seed int64, out *Recorder, nOps int) *Chain {
	rng := newRng(seed)
	cfg := GenCfg{Seed: seed, H0: 5, T0: time.Unix(1600000000, 0).UTC(), NAcc: 8, NVal: 2, NCert: 1, AdminIdx: 7,
		ExtraDenom: []string{"aaa", "zzz"}, Balance: 1000000000000, ValStake: []int64{1000000000, 2000000000}}
	if seed%3 == 0 {
		// a short unbonding time: coins that a vesting account delegated and undelegated come back within the history
		// (whatever was locked before the round trip must still be locked after it)
		cfg.Patch = func(enc appparams.EncodingConfig, gs app.GenesisState) {
			var stg stakingtypes.GenesisState
			enc.Marshaler.MustUnmarshalJSON(gs[stakingtypes.ModuleName], &stg)
			stg.Params.UnbondingTime = 12 * time.Second
			gs[stakingtypes.ModuleName] = enc.Marshaler.MustMarshalJSON(&stg)
		}
	}
	c := NewChain(cfg, out)
	c.Rng = rng
	// fresh keys that will become manual vesting accounts
	var mvas []int
	for i := 0; i < 3; i++ {
		mvas = append(mvas, c.AddAcct(fmt.Sprintf("m%d", i)))
	}
	out.Genesis(c, D{"profile": "bankvm"})
	if !c.Advance(5 * time.Second) {
		return c
	}
	// give the future vesting accounts something locked and something free
	for j, mi := range mvas {
		src := rng.Intn(cfg.NAcc)
		unl := c.Accts[(src+1+j)%cfg.NAcc].Addr
		lock := c.Coins([]int64{1000000, 5000000, 20000000}[rng.Intn(3)], Bond)
		c.Do(src, []D{{"t": "bank.lockedSend", "from": Hex(c.Accts[src].Addr), "to": Hex(c.Accts[mi].Addr), "unlocker": Hex(unl), "amt": CoinsJ(lock)}},
			bankx.NewMsgLockedSend(c.Accts[src].Addr, c.Accts[mi].Addr, unl.String(), lock))
		free := c.Coins([]int64{100000, 2000000}[rng.Intn(2)], Bond).Add(sdk.NewInt64Coin("zzz", 500))
		c.Do(src, []D{{"t": "bank.send", "from": Hex(c.Accts[src].Addr), "to": Hex(c.Accts[mi].Addr), "amt": CoinsJ(free), "toKind": ""}},
			banktypes.NewMsgSend(c.Accts[src].Addr, c.Accts[mi].Addr, free))
	}
	var contracts []deployed
	kinds := []string{"stop", "revert", "loop", "invalid", "store", "storeRevert", "storeInvalid", "suicide", "suicideTo", "log", "logRevert", "forward", "innerCall"}
	// choices added later draw from a stream of their own, so that history seeds keep naming the same histories
	rng2 := newRng(seed*7919 + 17)
	deploy := func(who int, kind string, value uint64) {
		// now and then somebody sends coins to the address the deployment is about to create (it is computable from the
		// deployer's address and sequence number): the deployment must then fail or keep those coins, never forget them
		if rng2.Intn(6) == 0 {
			acc := c.App.VerifAccountKeeper().GetAccount(c.Ctx(), c.Accts[who].Addr)
			if acc != nil {
				seqb := make([]byte, 8)
				binary.LittleEndian.PutUint64(seqb, acc.GetSequence()+1) // the ante handler has incremented it when the message runs
				next := crypto.NewContractAddress(crypto.MustAddressFromBytes(c.Accts[who].Addr), seqb)
				from := (who + 1 + rng2.Intn(cfg.NAcc-1)) % cfg.NAcc
				coins := c.Coins([]int64{1, 777000, 5000000}[rng2.Intn(3)], Bond)
				c.Do(from, []D{{"t": "bank.send", "from": Hex(c.Accts[from].Addr), "to": Hex(next.Bytes()), "amt": CoinsJ(coins), "toKind": ""}},
					banktypes.NewMsgSend(c.Accts[from].Addr, sdk.AccAddress(next.Bytes()), coins))
				c.Out.Note(D{"k": "note", "prefunded_next_contract_address": Hex(next.Bytes())})
			}
		}
		rt, _ := hex.DecodeString(vmPrograms[kind])
		// one deployment in five carries contract metadata with two entries (the code hashes the contract may create and their
		// metadata): stored with the contract, exported and re-imported entry by entry
		var meta []*payload.ContractMeta
		if rng2.Intn(5) == 0 {
			h1, h2 := make([]byte, 32), make([]byte, 32)
			h1[0], h1[31] = 0xa1, byte(rng2.Intn(256))
			h2[0], h2[31] = 0xb2, byte(rng2.Intn(256))
			meta = []*payload.ContractMeta{{CodeHash: h1, Meta: fmt.Sprintf("meta-one-%d", rng2.Intn(1000))}, {CodeHash: h2, Meta: fmt.Sprintf("meta-two-%d", rng2.Intn(1000))}}
		}
		m := cvmtypes.NewMsgDeploy(c.Accts[who].Addr.String(), value, initCode(rt), "", meta, false, false)
		res := c.Deliver(who, 3000000, DefaultFee, &m)
		newAddr := ""
		if res.Code == 0 {
			var md sdk.TxMsgData
			if md.Unmarshal(res.Data) == nil && len(md.Data) > 0 {
				var resp cvmtypes.MsgDeployResponse
				if resp.Unmarshal(md.Data[0].Data) == nil && len(resp.Result) == 20 {
					contracts = append(contracts, deployed{kind, sdk.AccAddress(resp.Result)})
					newAddr = Hex(resp.Result)
				}
			}
		}
		c.Out.Tx(c, c.Accts[who].Name, []D{{"t": "cvm.deploy", "caller": Hex(c.Accts[who].Addr), "kind": kind, "code": strings.ToUpper(vmPrograms[kind]),
			"value": value, "expect": "ok", "newAddr": newAddr}}, res, D{"fee": DefaultFee, "gas": 3000000, "signerAddr": Hex(c.Accts[who].Addr)})
	}
	// a deployment whose constructor works for a while and then destroys the contract being created: the execution succeeds,
	// its result cannot be committed (there is no account to give the code to), and the work must be charged all the same.
	// Every instruction costs at least one unit of gas (Props/C17 step_costs_at_least_one), the loop runs 6 instructions
	// 50,000 times: the transaction must be charged at least 300,000.
	deployWorkSuicide := func(who int) {
		init := []byte{0x61, 0xc3, 0x50, 0x5b, 0x60, 0x01, 0x90, 0x03, 0x80, 0x60, 0x03, 0x57, 0x33, 0xff}
		m := cvmtypes.NewMsgDeploy(c.Accts[who].Addr.String(), 0, init, "", nil, false, false)
		res := c.Deliver(who, 3000000, DefaultFee, &m)
		c.Out.Tx(c, c.Accts[who].Name, []D{{"t": "cvm.deploy", "caller": Hex(c.Accts[who].Addr), "kind": "workSuicide", "code": "",
			"value": 0, "expect": "any", "newAddr": "", "minGas": 300000}}, res, D{"fee": DefaultFee, "gas": 3000000, "signerAddr": Hex(c.Accts[who].Addr)})
	}
	// seed a few contracts so that calls have targets early
	for _, k := range []string{"stop", "store", "storeRevert", "revert", "forward", "innerCall", "suicide"} {
		deploy(rng.Intn(cfg.NAcc), k, 0)
	}
	pickContract := func(want ...string) *deployed {
		var cands []int
		for i, d := range contracts {
			for _, w := range want {
				if d.Kind == w {
					cands = append(cands, i)
				}
			}
		}
		if len(want) == 0 {
			for i := range contracts {
				cands = append(cands, i)
			}
		}
		if len(cands) == 0 {
			return nil
		}
		return &contracts[cands[rng.Intn(len(cands))]]
	}
	isMVA := func(i int) bool {
		acc := c.App.VerifAccountKeeper().GetAccount(c.Ctx(), c.Accts[i].Addr)
		_, ok := acc.(*vesting.ManualVestingAccount)
		return ok
	}
	amounts := func(i int) int64 { // around the spendable boundary for vesting accounts
		ctx := c.Ctx()
		sp := c.App.VerifBankKeeper().SpendableCoins(ctx, c.Accts[i].Addr).AmountOf(Bond).Int64()
		bal := c.App.VerifBankKeeper().GetBalance(ctx, c.Accts[i].Addr, Bond).Amount.Int64()
		opts := []int64{1, 1000, 77777, 500000}
		if sp > DefaultFee+2 {
			opts = append(opts, sp-DefaultFee, sp-DefaultFee-1, sp-DefaultFee+1, sp/2)
		}
		if bal > sp {
			opts = append(opts, bal-DefaultFee, sp+1, (bal+sp)/2)
		}
		a := opts[rng.Intn(len(opts))]
		if a <= 0 {
			a = 1
		}
		return a
	}
	for i := 0; i < nOps && c.Halted == ""; i++ {
		nA := len(c.Accts)
		who := rng.Intn(nA)
		if rng.Intn(3) == 0 { // vesting accounts act more often
			who = mvas[rng.Intn(len(mvas))]
		}
		ac := c.Accts[who]
		// with a short unbonding time: now and then a vesting account takes a whole delegation back, so that coins it delegated
		// while they were locked return to it within the history
		if seed%3 == 0 && rng2.Intn(10) == 0 {
			m := mvas[rng2.Intn(len(mvas))]
			dels := c.App.VerifStakingKeeper().GetAllDelegatorDelegations(c.Ctx(), c.Accts[m].Addr)
			if len(dels) > 0 {
				d := dels[rng2.Intn(len(dels))]
				if v, found := c.App.VerifStakingKeeper().GetValidator(c.Ctx(), d.GetValidatorAddr()); found {
					amt := v.TokensFromShares(d.Shares).TruncateInt().Int64()
					if rng2.Intn(2) == 0 {
						amt = amt/2 + 1
					}
					if amt > 0 {
						c.Do(m, []D{{"t": "staking.undelegate", "del": Hex(c.Accts[m].Addr), "val": Hex(sdk.AccAddress(d.GetValidatorAddr())), "amt": amt}},
							stakingtypes.NewMsgUndelegate(c.Accts[m].Addr, d.GetValidatorAddr(), sdk.NewInt64Coin(Bond, amt)))
					}
				}
			}
		}
		r := rng.Intn(100)
		switch {
		case r < 14:
			if !c.Advance(time.Duration(1+rng.Intn(8)) * time.Second) {
				return c
			}
		case r < 26: // plain send, several denominations, sometimes to a contract
			to := c.Accts[rng.Intn(nA)].Addr
			toKind := ""
			if rng.Intn(4) == 0 {
				if d := pickContract("stop", "revert", "store", "suicide", "log", "loop"); d != nil {
					to, toKind = d.Addr, d.Kind
				}
			}
			coins := c.Coins(amounts(who), Bond)
			if rng.Intn(4) == 0 {
				coins = coins.Add(sdk.NewInt64Coin([]string{"aaa", "zzz"}[rng.Intn(2)], 1+rng.Int63n(500)))
			}
			if rng.Intn(12) == 0 {
				coins = c.Coins(1+rng.Int63n(500), "zzz")
			}
			c.Do(who, []D{{"t": "bank.send", "from": Hex(ac.Addr), "to": Hex(to), "amt": CoinsJ(coins), "toKind": toKind}}, banktypes.NewMsgSend(ac.Addr, to, coins))
		case r < 31: // multisend
			to1, to2 := c.Accts[rng.Intn(nA)].Addr, c.Accts[rng.Intn(nA)].Addr
			a1, a2 := 1+rng.Int63n(5000), 1+rng.Int63n(5000)
			if rng.Intn(3) == 0 {
				a1 = amounts(who)
			}
			in := []banktypes.Input{banktypes.NewInput(ac.Addr, c.Coins(a1+a2, Bond))}
			outs := []banktypes.Output{banktypes.NewOutput(to1, c.Coins(a1, Bond)), banktypes.NewOutput(to2, c.Coins(a2, Bond))}
			c.Do(who, []D{{"t": "bank.multisend", "from": Hex(ac.Addr), "outs": []interface{}{[]interface{}{Hex(to1), a1}, []interface{}{Hex(to2), a2}}}}, banktypes.NewMsgMultiSend(in, outs))
		case r < 41: // locked send
			to := mvas[rng.Intn(len(mvas))]
			if rng.Intn(8) == 0 {
				to = rng.Intn(nA)
			}
			unl := ""
			var unlAddr sdk.AccAddress
			if !isMVA(to) || rng.Intn(6) == 0 {
				unlAddr = c.Accts[rng.Intn(cfg.NAcc)].Addr
				unl = unlAddr.String()
			}
			coins := c.Coins([]int64{1000, 1000000, 5000000, 123}[rng.Intn(4)], Bond)
			if rng.Intn(8) == 0 {
				coins = coins.Add(sdk.NewInt64Coin("zzz", 1+rng.Int63n(100)))
			}
			c.Do(who, []D{{"t": "bank.lockedSend", "from": Hex(ac.Addr), "to": Hex(c.Accts[to].Addr), "unlocker": Hex(unlAddr), "amt": CoinsJ(coins)}},
				bankx.NewMsgLockedSend(ac.Addr, c.Accts[to].Addr, unl, coins))
		case r < 49: // unlock
			tgt := mvas[rng.Intn(len(mvas))]
			signer := who
			if acc, ok := c.App.VerifAccountKeeper().GetAccount(c.Ctx(), c.Accts[tgt].Addr).(*vesting.ManualVestingAccount); ok && rng.Intn(4) > 0 {
				ua, _ := sdk.AccAddressFromBech32(acc.Unlocker)
				signer = c.idxOf(ua, who)
				_ = acc
			}
			coins := c.Coins([]int64{1, 500, 1000, 999999, 1000000, 1000001, 7000000}[rng.Intn(7)], Bond)
			if rng.Intn(10) == 0 {
				coins = c.Coins(1+rng.Int63n(50), "zzz")
			}
			c.Do(signer, []D{{"t": "auth.unlock", "issuer": Hex(c.Accts[signer].Addr), "account": Hex(c.Accts[tgt].Addr), "amt": CoinsJ(coins)}},
				vesting.NewMsgUnlock(c.Accts[signer].Addr, c.Accts[tgt].Addr, coins))
		case r < 57: // delegate / undelegate (vesting accounts may delegate locked coins)
			v := rng.Intn(cfg.NVal)
			val := sdk.ValAddress(c.Accts[v].Addr)
			if rng.Intn(3) > 0 {
				amt := amounts(who)
				c.Do(who, []D{{"t": "staking.delegate", "del": Hex(ac.Addr), "val": Hex(c.Accts[v].Addr), "amt": amt}},
					stakingtypes.NewMsgDelegate(ac.Addr, val, sdk.NewInt64Coin(Bond, amt)))
			} else {
				amt := []int64{1000, 500000, 1000000}[rng.Intn(3)]
				c.Do(who, []D{{"t": "staking.undelegate", "del": Hex(ac.Addr), "val": Hex(c.Accts[v].Addr), "amt": amt}},
					stakingtypes.NewMsgUndelegate(ac.Addr, val, sdk.NewInt64Coin(Bond, amt)))
			}
		case r < 63: // deploy
			value := uint64(0)
			if rng.Intn(3) == 0 {
				value = uint64(amounts(who))
			}
			if rng.Intn(8) == 0 {
				deployWorkSuicide(who)
				continue
			}
			deploy(who, kinds[rng.Intn(len(kinds))], value)
		default: // call
			if rng.Intn(6) == 0 { // a value call with empty data to an account without code: a plain transfer made by the VM
				toAddr := c.Accts[rng.Intn(len(c.Accts))].Addr
				if rng.Intn(4) == 0 { // the all-zero address (Burrow's global-permissions account) is an account like any other to the bank
					toAddr = make(sdk.AccAddress, 20)
				} else if rng.Intn(4) == 0 { // a module account: the bank refuses plain sends to them, and so must the VM
					toAddr = moduleTarget(rng)
				}
				value := uint64(amounts(who))
				m := cvmtypes.NewMsgCall(ac.Addr.String(), toAddr.String(), value, nil)
				c.DoGas(who, 3000000, DefaultFee, []D{{"t": "cvm.call", "caller": Hex(ac.Addr), "callee": Hex(toAddr), "kind": "none", "value": value, "data": "", "expect": "any"}}, nil, &m)
				continue
			}
			d := pickContract()
			if d == nil {
				continue
			}
			value := uint64(0)
			if rng.Intn(2) == 0 {
				value = uint64(amounts(who))
			}
			var data []byte
			selfTarget := false
			expect := "ok"
			desc := D{"t": "cvm.call", "caller": Hex(ac.Addr), "callee": Hex(d.Addr), "kind": d.Kind, "value": value}
			switch d.Kind {
			case "revert", "loop", "invalid", "storeRevert", "storeInvalid", "logRevert":
				expect = "fail"
				if rng.Intn(2) == 0 {
					data = []byte{1}
				}
			case "store":
				w := word32([]byte{byte(1 + rng.Intn(200)), byte(rng.Intn(256))})
				if rng.Intn(6) == 0 {
					w = word32(nil) // store zero: deletes the slot
				}
				data = w
				desc["slot0"] = hex.EncodeToString(w)
			case "forward", "innerCall":
				if d.Kind == "forward" && rng.Intn(8) == 0 { // the value forwarded to a module account by an inner CALL
					ma := moduleTarget(rng)
					data = word32(ma)
					desc["target"] = Hex(ma)
					desc["targetKind"] = "none"
					desc["targetExists"] = c.App.VerifAccountKeeper().GetAccount(c.Ctx(), ma) != nil
					break
				}
				t := pickContract("stop", "store", "revert", "storeRevert", "logRevert")
				if t == nil {
					continue
				}
				data = word32(t.Addr)
				desc["target"] = Hex(t.Addr)
				desc["targetKind"] = t.Kind
			case "suicide":
				// contract disappears; its whole balance goes to the caller
			case "suicideTo":
				// the beneficiary is named by the caller: the contract itself, the caller, another account, another
				// contract, or an address that does not exist yet
				var t []byte
				switch rng.Intn(8) {
				case 0, 1, 2:
					t = d.Addr
				case 3:
					t = ac.Addr
					if x := rng.Intn(3); x == 0 {
						t = make([]byte, 20) // the all-zero address
					} else if x == 1 {
						t = moduleTarget(rng)
					}
				case 4:
					t = c.Accts[rng.Intn(len(c.Accts))].Addr
				case 5:
					if o := pickContract("stop", "store", "revert", "suicideTo"); o != nil {
						t = o.Addr
					} else {
						t = d.Addr
					}
				default:
					t = make([]byte, 20)
					rng.Read(t)
					t[0] = 0x7e // not a native address
				}
				data = word32(t)
				desc["target"] = Hex(t)
				selfTarget = bytes.Equal(t, d.Addr)
				desc["targetExists"] = c.App.VerifAccountKeeper().GetAccount(c.Ctx(), sdk.AccAddress(t)) != nil
			}
			desc["expect"] = expect
			desc["data"] = hex.EncodeToString(data)
			m := cvmtypes.NewMsgCall(ac.Addr.String(), d.Addr.String(), value, data)
			gas := uint64(3000000)
			res := c.DoGas(who, gas, DefaultFee, []D{desc}, nil, &m)
			if res.Code == 0 && (d.Kind == "suicide" || (d.Kind == "suicideTo" && !selfTarget)) {
				for j := range contracts {
					if contracts[j].Addr.Equals(d.Addr) {
						contracts = append(contracts[:j], contracts[j+1:]...)
						break
					}
				}
			}
			// read-only execution of the same call must leave no trace
			if rng.Intn(4) == 0 {
				c.ViewCall(who, d.Addr, data, d.Kind)
			}
		}
	}
	for i := 0; i < 3 && c.Halted == ""; i++ {
		if !c.Advance(10 * time.Second) {
			break
		}
	}
	if c.Halted == "" && c.InBlock {
		c.End()
	}
	return c
}

// ViewCall runs the read-only execution path (the one queries use) directly on the block's state and records
// whether anything observable changed.
func (c *Chain) ViewCall(who int, callee sdk.AccAddress, data []byte, kind string) {
	ctx := c.Ctx()
	var errStr string
	pi := catch(func() {
		_, err := c.App.VerifCvmKeeper().Tx(ctx, c.Accts[who].Addr, callee, 0, data, nil, true, false, false)
		if err != nil {
			errStr = trunc(err.Error(), 80)
		}
	})
	if pi != nil {
		errStr = "panic:" + trunc(pi.Value, 80)
	}
	if c.Out != nil {
		st := c.Out.observe(c)
		c.Out.Note(D{"k": "view", "caller": Hex(c.Accts[who].Addr), "callee": Hex(callee), "kind": kind, "err": errStr, "h": c.Height, "st": st})
	}
}
