package sim

// Profile "zerolen" (C17 memory_is_paid_for, C16 zero_length_grows_memory): memory operands of length zero at a large
// offset.  The EVM does not touch memory for an empty range, whatever its offset; vm/gas.go (calcMemSize64WithUint) agrees
// when it computes the size to charge — 0 — but Burrow's dynamic memory still grows to `offset + 0` when the instruction
// then reads or writes the empty range.  One instruction per program:
//
//	CALLDATACOPY, CODECOPY, EXTCODECOPY, RETURNDATACOPY, SHA3, LOG0, RETURN, REVERT,
//	CALL / STATICCALL / DELEGATECALL with an empty input window or an empty output window, CREATE with empty init code,
//
// in the top frame or inside a callee ("inner": the growth happens in the second frame's memory), with the offset drawn
// around 64 KiB, 1 MiB and the 16 MiB cap of the memory provider, under several gas limits.  One program in five is a
// control with a length of 1 or 32 bytes at an offset of at most 128 KiB: its memory must be paid for, or the execution must
// run out of gas without growing.  Except for RETURN and REVERT the program ends with
// MSIZE; PUSH1 0; MSTORE; RETURN(0, 32): what the program itself sees (`msize_ret` in the note).  The harness reports
// the final size of every frame's memory for all profiles (vm_run.go).

import (
	"fmt"
	"math/big"
	"math/rand"

	"github.com/hyperledger/burrow/crypto"
)

var zerolenCallee = crypto.Address{0x2e, 0x70, 0x1e, 0x00, 0x00, 0x00, 0x00, 0x00, 0x00, 0x00, 0x00, 0x00, 0x00, 0x00, 0x00, 0x00, 0x00, 0x00, 0x00, 0x01}

var zerolenOps = []string{"CALLDATACOPY", "CODECOPY", "EXTCODECOPY", "RETURNDATACOPY", "SHA3", "LOG0", "RETURN", "REVERT",
	"CALL_IN", "CALL_OUT", "STATICCALL_IN", "STATICCALL_OUT", "DELEGATECALL_IN", "DELEGATECALL_OUT", "CREATE"}

// zerolenBody emits the instruction under test with the memory range (off, n); final reports whether it ends the frame.
func zerolenBody(a *vmAsm, op string, off, n uint64, target crypto.Address) (final bool) {
	addr := new(big.Int).SetBytes(target.Bytes())
	switch op {
	case "CALLDATACOPY", "CODECOPY", "RETURNDATACOPY":
		a.pushU(n)
		a.pushU(0) // offset in the data
		a.pushU(off)
		a.op(map[string]byte{"CALLDATACOPY": 0x37, "CODECOPY": 0x39, "RETURNDATACOPY": 0x3e}[op])
	case "EXTCODECOPY":
		a.pushU(n)
		a.pushU(0)
		a.pushU(off)
		a.op(0x30) // ADDRESS: this contract's own code
		a.op(0x3c)
	case "SHA3":
		a.pushU(n)
		a.pushU(off)
		a.op(0x20, 0x50) // SHA3 ; POP
	case "LOG0":
		a.pushU(n)
		a.pushU(off)
		a.op(0xa0)
	case "RETURN", "REVERT":
		a.pushU(n)
		a.pushU(off)
		a.op(map[string]byte{"RETURN": 0xf3, "REVERT": 0xfd}[op])
		return true
	case "CREATE":
		a.pushU(n) // size of the init code
		a.pushU(off)
		a.pushU(0) // value
		a.op(0xf0, 0x50)
	default: // the call family: empty input window or empty output window at `off`
		if op[len(op)-3:] == "_IN" {
			a.pushU(0) // output size
			a.pushU(0) // output offset
			a.pushU(n) // input size
			a.pushU(off)
		} else {
			a.pushU(n)
			a.pushU(off)
			a.pushU(0)
			a.pushU(0)
		}
		code := byte(0xf1)
		if op[0] == 'S' {
			code = 0xfa
		} else if op[0] == 'D' {
			code = 0xf4
		}
		if code == 0xf1 {
			a.pushU(0) // value
		}
		a.push(addr)
		a.op(0x5a) // GAS
		a.op(code, 0x50)
	}
	return false
}

func zerolenEpilogue(a *vmAsm) {
	a.op(0x59)  // MSIZE
	a.pushU(0)  //
	a.op(0x52)  // MSTORE(0, msize)
	a.pushU(32) //
	a.pushU(0)  //
	a.op(0xf3)  // RETURN(0, 32)
}

func GenZeroLen(id int64) *VMCase {
	r := rand.New(rand.NewSource(id*6151 + 29))
	c := baseCase(id, "zerolen", r)
	c.Value = 0
	c.PreStorage = nil
	op := zerolenOps[r.Intn(len(zerolenOps))]
	n := uint64(0)
	var off uint64
	control := r.Intn(5) == 0
	if control {
		n = []uint64{1, 32}[r.Intn(2)]
		off = []uint64{0, 31, 0x1000, 0x10000 - 32, 0x10000, 0x1ffe0}[r.Intn(6)]
		if op == "CREATE" {
			n = 1 // init code "00" (memory is zero): STOP, deploys empty code
		}
	} else {
		switch r.Intn(8) {
		case 0:
			off = 0xFFFFE0 // the reviewer's input: one word below the cap
		case 1:
			off = 0x1000000 // exactly the cap of the memory provider
		case 2:
			off = 0x1000001 // beyond the cap: the memory refuses to grow
		case 3:
			off = 0x100000 + uint64(r.Intn(64))
		case 4:
			off = 0x10000 - uint64(r.Intn(3))*32
		case 5:
			off = uint64(r.Intn(0x1000000))
		case 6:
			off = uint64(32 * r.Intn(0x80000))
		default:
			off = []uint64{0, 1, 31, 32, 33, 1000, 1001}[r.Intn(7)]
		}
	}
	inner := r.Intn(4) == 0
	c.Extra = []VMAccount{{Addr: zerolenCallee, Code: []byte{0x00}}}
	c.UsesExt = true
	a := newAsm()
	msizeRet := false
	if inner {
		// the instruction runs in a callee; the top frame only calls it and reports its own (untouched) MSIZE
		b := newAsm()
		inner2 := crypto.Address{0x2e, 0x70, 0x1e, 0x00, 0x00, 0x00, 0x00, 0x00, 0x00, 0x00, 0x00, 0x00, 0x00, 0x00, 0x00, 0x00, 0x00, 0x00, 0x00, 0x02}
		if !zerolenBody(b, op, off, n, inner2) {
			b.op(0x00)
		}
		c.Extra = []VMAccount{{Addr: zerolenCallee, Code: b.bytes()}, {Addr: inner2, Code: []byte{0x00}}}
		a.pushU(0)
		a.pushU(0)
		a.pushU(0)
		a.pushU(0)
		a.pushU(0)
		a.push(new(big.Int).SetBytes(zerolenCallee.Bytes()))
		a.op(0x5a, 0xf1, 0x50)
		zerolenEpilogue(a)
		msizeRet = true
	} else if !zerolenBody(a, op, off, n, zerolenCallee) {
		zerolenEpilogue(a)
		msizeRet = true
	}
	c.Code = a.bytes()
	c.Gas = []int64{5000000, 5000000, 1000000, 100000, 30000, 1000}[r.Intn(6)]
	c.Note = fmt.Sprintf("%s off=%d len=%d", op, off, n)
	if inner {
		c.Note += " inner"
	}
	if msizeRet {
		c.Note += " msize_ret"
	}
	if control {
		c.Note += " control"
	}
	return c
}

func init() { VMGenerators["zerolen"] = GenZeroLen }
