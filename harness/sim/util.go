package sim

import (
	"math/rand"

	oraclekeeper "github.com/certikfoundation/shentu/x/oracle/keeper"
)

func newRng(seed int64) *rand.Rand { return rand.New(rand.NewSource(seed)) }

func (c *Chain) Oracle() oraclekeeper.Keeper { return c.App.VerifOracleKeeper() }
