package sim

// Profile "shieldparams": the shield module's withdraw period changed the way a passed parameter-change proposal changes it, and
// the next withdrawal request (C07).
//
// A shield history is run first (quietly).  On its final state, in cache contexts that are thrown away afterwards, the REAL
// handler of x/params' ParameterChangeProposal is called with the module's pool parameters in which the withdraw period is
// longer, much longer, or shorter than before; when the parameter store accepts the value, a provider with free collateral
// asks for a withdrawal through the REAL keeper function, and the entries that request added to the withdraw queue are
// recorded.  One line per trial.  The Lean driver restates the property: the request waits the period configured at the time of
// the request (`C07.request_enqueued_at_full_period`; the histories of the shield model keep the period constant, this probe is
// what ties "the period" of those theorems to the parameter store the chain actually reads).

import (
	"fmt"
	"time"

	sdk "github.com/cosmos/cosmos-sdk/types"
	"github.com/cosmos/cosmos-sdk/x/params"
	paramproposal "github.com/cosmos/cosmos-sdk/x/params/types/proposal"

	shieldtypes "github.com/certikfoundation/shentu/x/shield/types"
)

func init() {
	Profiles["shieldparams"] = Profile{Mods: nil, Run: ShieldParamsProfile}
}

func ShieldParamsProfile(seed int64, out *Recorder, nOps int) *Chain {
	rng := newRng(seed ^ 0x5a9e)
	quiet := NewRecorder(nopWriter{}, nil)
	a := Profiles["shield"].Run(seed, quiet, nOps)
	out.Reset()
	names := D{}
	for _, ac := range a.Accts {
		names[ac.Name] = Hex(ac.Addr)
	}
	out.emit(D{"k": "genesis", "seed": seed, "h": a.Cfg.H0, "t": nsStr(a.Cfg.T0), "names": names, "profile": "shieldparams", "base": "shield", "st": D{}})
	halted := a.Halted
	a.Halted = ""
	if halted != "" || a.InBlock {
		return a
	}
	ctx0 := a.Ctx()
	sk := a.App.VerifShieldKeeper()
	handler := params.NewParamChangeProposalHandler(a.App.VerifParamsKeeper())
	old := sk.GetPoolParams(ctx0).WithdrawPeriod
	news := []time.Duration{old + time.Hour, 2*old + time.Duration(rng.Int63n(1000000))*time.Second, old/2 + time.Second, old + 1, old}
	for i, np := range news {
		ctx, _ := ctx0.CacheContext()
		pp := sk.GetPoolParams(ctx)
		pp.WithdrawPeriod = np
		bz := a.App.LegacyAmino().MustMarshalJSON(pp)
		prop := paramproposal.NewParameterChangeProposal("pool parameters", "probe",
			[]paramproposal.ParamChange{paramproposal.NewParamChange(shieldtypes.ModuleName, string(shieldtypes.ParamStoreKeyPoolParams), string(bz))})
		line := D{"k": "sparams", "trial": i, "old": fmt.Sprint(old.Nanoseconds()), "new": fmt.Sprint(np.Nanoseconds()), "now": nsStr(ctx.BlockTime())}
		// the change itself must leave the queue and the providers' books alone (C07P.period_change_does_not_touch_the_queue)
		books := func() string {
			return fmt.Sprint(sk.GetAllWithdraws(ctx), sk.GetAllProviders(ctx), sk.GetTotalCollateral(ctx), sk.GetTotalWithdrawing(ctx))
		}
		booksBefore := books()
		var herr error
		if pi := catch(func() { herr = handler(ctx, prop) }); pi != nil {
			line["accepted"] = false
			line["refusal"] = "panic: " + trunc(pi.Value, 100)
			out.emit(line)
			continue
		}
		if herr != nil {
			line["accepted"] = false
			line["refusal"] = trunc(herr.Error(), 100)
			out.emit(line)
			continue
		}
		line["accepted"] = true
		line["books_unchanged"] = booksBefore == books()
		// a provider with free collateral
		var who sdk.AccAddress
		free := sdk.ZeroInt()
		for _, p := range sk.GetAllProviders(ctx) {
			if f := p.Collateral.Sub(p.Withdrawing); f.IsPositive() && (who == nil || rng.Intn(2) == 0) {
				who, _ = sdk.AccAddressFromBech32(p.Address)
				free = f
			}
		}
		if who == nil {
			line["skipped"] = "no provider with free collateral"
			out.emit(line)
			continue
		}
		amt := sdk.OneInt()
		if free.GT(sdk.OneInt()) && rng.Intn(2) == 0 {
			amt = mintRandInt(rng, free.SubRaw(1)).AddRaw(1)
		}
		type ent struct {
			amt string
			t   int64
		}
		count := func(ws []shieldtypes.Withdraw) map[ent]int {
			m := map[ent]int{}
			for _, w := range ws {
				m[ent{w.Amount.String(), w.CompletionTime.UnixNano()}]++
			}
			return m
		}
		before := count(sk.GetWithdrawsByProvider(ctx, who.String()))
		var werr error
		if pi := catch(func() { werr = sk.WithdrawCollateral(ctx, who, amt) }); pi != nil {
			line["err"] = "panic: " + trunc(pi.Value, 100)
		} else if werr != nil {
			line["err"] = trunc(werr.Error(), 100)
		} else {
			line["err"] = ""
		}
		queued := []interface{}{}
		for e, n := range count(sk.GetWithdrawsByProvider(ctx, who.String())) {
			for j := before[e]; j < n; j++ {
				queued = append(queued, []interface{}{e.amt, fmt.Sprint(e.t)})
			}
		}
		line["provider"] = Hex(who)
		line["amount"] = amt.String()
		line["queued"] = queued
		line["stored"] = fmt.Sprint(sk.GetPoolParams(ctx).WithdrawPeriod.Nanoseconds())
		out.emit(line)
	}
	// RestoreShield for a purchase that is gone while its purchaser still holds another purchase in the pool (the claimed purchase
	// expired while the claim was open: the gov end-blocker calls RestoreShield outside any recover when the claim is rejected)
	n := 0
	pctx, _ := ctx0.CacheContext()
	if len(sk.GetAllPurchaseLists(pctx)) == 0 {
		// every purchase of the history has expired: a fresh pool (its creation buys one unit of shield for the sponsor)
		admin := sk.GetAdmin(pctx)
		one := sdk.NewCoins(sdk.NewInt64Coin(Bond, 1))
		var cerr error
		if pi := catch(func() {
			_, cerr = sk.CreatePool(pctx, admin, one, shieldtypes.MixedCoins{Native: one}, fmt.Sprintf("probe-%d", seed), a.Accts[len(a.Accts)-1].Addr, "probe", sdk.NewInt(1000000000000000))
		}); pi != nil || cerr != nil {
			out.emit(D{"k": "sparams", "probe": "restore_absent", "skipped": fmt.Sprint("no purchase and no pool could be made: ", cerr, pi)})
		}
	}
	for _, pl := range sk.GetAllPurchaseLists(pctx) {
		if len(pl.Entries) == 0 || n >= 3 {
			continue
		}
		n++
		ctx, _ := pctx.CacheContext()
		purchaser, err := sdk.AccAddressFromBech32(pl.Purchaser)
		if err != nil {
			continue
		}
		absent := uint64(0)
		for _, e := range pl.Entries {
			if e.PurchaseId >= absent {
				absent = e.PurchaseId + 1 + uint64(rng.Intn(1000))
			}
		}
		before := sk.GetTotalShield(ctx)
		outcome := "ok"
		var rerr error
		if pi := catch(func() { rerr = sk.RestoreShield(ctx, pl.PoolId, purchaser, absent, sdk.NewCoins(sdk.NewInt64Coin(Bond, 1+rng.Int63n(1000)))) }); pi != nil {
			outcome = "panic: " + trunc(pi.Value, 100)
		} else if rerr != nil {
			outcome = "error: " + trunc(rerr.Error(), 80)
		}
		out.emit(D{"k": "sparams", "probe": "restore_absent", "pool": pl.PoolId, "purchaser": Hex(purchaser), "purchase": absent, "entries": len(pl.Entries),
			"outcome": outcome, "total_before": before.String(), "total_after": sk.GetTotalShield(ctx).String()})
	}
	return a
}
