package sim

// Profile "reimburse": the payout of an approved claim at chosen utilisations of the collateral (C04, C02, C03, C08;
// Model/Shield.lean `createReimbursement`).
//
// A shield history is run first (quietly), or — one seed in three — a chain is started with no shield history at all.  On that
// state, in a cache context that is thrown away afterwards, the books are brought to a chosen situation using only the real
// keepers: new providers delegate (staking keeper) and deposit collateral (1–4 of them, with collaterals chosen so that the
// proportional shares are fractional, equal, or a handful of units next to a large provider), the admin opens a pool, a
// purchaser buys shield, the claim is secured exactly as its submission does (SecureCollaterals with twice the voting period),
// a provider may queue a withdrawal, and further purchases fill the remaining free collateral up to a target: EXACTLY full
// (total shield + claimed + withdrawing = total collateral, to the unit), one unit below, one unit above (that purchase must be
// refused), or anywhere.  Then the REAL CreateReimbursement is called under recover.  One line per call: the shield module's
// observation before and after (the format of the chain traces), each provider's bonded stake and unbonding total, the
// arguments, the outcome, the module account's gain.  The Lean driver (Drivers/ReimbD.lean) runs the model from the observed
// pre-state, compares, and evaluates the property's own statements on the observation alone.

import (
	"fmt"
	"math/rand"
	"time"

	sdk "github.com/cosmos/cosmos-sdk/types"
	authtypes "github.com/cosmos/cosmos-sdk/x/auth/types"
	stakingtypes "github.com/cosmos/cosmos-sdk/x/staking/types"

	shieldtypes "github.com/certikfoundation/shentu/x/shield/types"
)

func init() {
	Profiles["reimburse"] = Profile{Mods: nil, Run: ReimburseProfile}
}

// reimbScratchChain: the real application right after genesis, shield parameters that allow one pool to carry all the
// shield and purchases of one unit; no shield operation has happened yet.
func reimbScratchChain(seed int64, quiet *Recorder) *Chain {
	rng := newRng(seed*7919 + 13)
	unit := 30 * time.Second
	sc := ShieldCfg{Protection: 6 * unit, Withdraw: 6 * unit, Voting: unit, Payout: 2 * unit, Unbonding: 6 * unit,
		MinPurchase: 1, FeesRate: sdk.NewDecWithPrec(1, 1), PoolLimit: sdk.OneDec(), StakingRate: sdk.NewDec(2),
		DepositRate: sdk.NewDecWithPrec(10, 2), MinClaimDeposit: 100}
	t0 := time.Unix(1600000000, 0).UTC()
	cfg := GenCfg{Seed: seed, H0: 10, T0: t0, NAcc: 10, NVal: 2, NCert: 1, AdminIdx: 9,
		Balance: 1000000000000, ValStake: []int64{1000000000, 1000000000, 1000000000}, Patch: shieldPatch(sc, 2*unit, t0), Votes: true,
		MinSelf: []int64{1}}
	c := NewChain(cfg, quiet)
	c.Rng = rng
	if c.Advance(2*time.Second) && c.Advance(5*time.Second) && c.InBlock {
		c.End()
	}
	return c
}

var reimbPrimes = []int64{2, 3, 5, 7, 11, 13, 101, 1009, 1000003, 99999989}
var reimbEqual = []int64{3, 7, 100, 33333333, 100000000}
var reimbTinyLarge = []int64{36, 33, 11, 818673}

func reimbCollaterals(rng *rand.Rand, n int) (string, []int64) {
	cs := make([]int64, n)
	switch rng.Intn(5) {
	case 0:
		v := reimbEqual[rng.Intn(len(reimbEqual))]
		for i := range cs {
			cs[i] = v
		}
		return "equal", cs
	case 1:
		perm := rng.Perm(len(reimbTinyLarge))
		for i := range cs {
			cs[i] = reimbTinyLarge[perm[i%len(perm)]]
		}
		return "tiny_and_large", cs
	case 2:
		for i := range cs {
			cs[i] = reimbPrimes[rng.Intn(len(reimbPrimes))]
		}
		return "primes", cs
	case 3:
		for i := range cs {
			cs[i] = 1 + rng.Int63n(12)
		}
		return "handful", cs
	default:
		for i := range cs {
			cs[i] = 1 + rng.Int63n([]int64{100, 100000, 1000000000}[rng.Intn(3)])
		}
		return "random", cs
	}
}

func ReimburseProfile(seed int64, out *Recorder, nOps int) *Chain {
	rng := newRng(seed ^ 0x4e1b)
	quiet := NewRecorder(nopWriter{}, nil)
	base := "shield"
	var a *Chain
	if seed%3 == 0 {
		base = "scratch"
		a = reimbScratchChain(seed, quiet)
	} else {
		a = Profiles["shield"].Run(seed, quiet, nOps)
	}
	out.Reset()
	names := D{}
	for _, ac := range a.Accts {
		names[ac.Name] = Hex(ac.Addr)
	}
	modAddr := authtypes.NewModuleAddress(shieldtypes.ModuleName)
	names["mod."+shieldtypes.ModuleName] = Hex(modAddr)
	names["mod."+stakingtypes.BondedPoolName] = Hex(authtypes.NewModuleAddress(stakingtypes.BondedPoolName))
	out.emit(D{"k": "genesis", "seed": seed, "h": a.Cfg.H0, "t": nsStr(a.Cfg.T0), "names": names, "profile": "reimburse", "base": base, "st": D{}})
	halted := a.Halted
	a.Halted = "" // a halt of the base history is C08's matter (the shield engine runs the same histories)
	if halted != "" || a.InBlock {
		return a
	}
	ctx0 := a.Ctx()
	stk := a.App.VerifStakingKeeper()
	k := a.App.VerifShieldKeeper()
	bk := a.App.VerifBankKeeper()
	gk := a.App.VerifGovKeeper()
	coins := func(x sdk.Int) sdk.Coins { return sdk.NewCoins(sdk.NewCoin(Bond, x)) }
	stakeOf := func(ctx sdk.Context, addr sdk.AccAddress) (sdk.Int, sdk.Int) {
		bonded := sdk.ZeroInt()
		for _, d := range stk.GetAllDelegatorDelegations(ctx, addr) {
			if v, found := stk.GetValidator(ctx, d.GetValidatorAddr()); found {
				bonded = bonded.Add(v.TokensFromShares(d.Shares).TruncateInt())
			}
		}
		ubd := sdk.ZeroInt()
		for _, u := range stk.GetAllUnbondingDelegations(ctx, addr) {
			for _, e := range u.Entries {
				ubd = ubd.Add(e.Balance)
			}
		}
		return bonded, ubd
	}
	rnd := func(max sdk.Int) sdk.Int { // uniform in [0, max]
		if !max.IsPositive() {
			return sdk.ZeroInt()
		}
		if max.IsInt64() {
			return sdk.NewInt(rng.Int63n(max.Int64() + 1))
		}
		return max.QuoRaw(int64(1 + rng.Intn(7)))
	}
	free := func(ctx sdk.Context) sdk.Int {
		return k.GetTotalCollateral(ctx).Sub(k.GetTotalWithdrawing(ctx)).Sub(k.GetTotalClaimed(ctx)).Sub(k.GetTotalShield(ctx))
	}
	admin := k.GetAdmin(ctx0)
	// a purchase of `amt` in `poolID` by `who`: at the standard fee; when that fee truncates to nothing, against stake; when that fails
	// too (one unit at a staking rate below one), as the admin's own purchase with a fee of one unit (UpdatePool).  Returns the
	// purchaser and the purchase id.
	buy := func(ctx sdk.Context, poolID uint64, amt sdk.Int, who sdk.AccAddress, desc string) (sdk.AccAddress, uint64, string) {
		var pu shieldtypes.Purchase
		var err error
		why := ""
		for _, staking := range []bool{false, true} {
			pi := catch(func() { pu, err = k.PurchaseShield(ctx, poolID, coins(amt), desc, who, staking) })
			if pi == nil && err == nil {
				return who, pu.PurchaseId, ""
			}
			why = fmt.Sprint(err, pi)
			if err != shieldtypes.ErrNoShield {
				return nil, 0, why
			}
		}
		id := k.GetNextPurchaseID(ctx)
		pi := catch(func() {
			_, err = k.UpdatePool(ctx, poolID, "", admin, coins(amt), shieldtypes.MixedCoins{Native: coins(sdk.OneInt())}, sdk.ZeroInt())
		})
		if pi == nil && err == nil {
			return admin, id, ""
		}
		return nil, 0, fmt.Sprint(err, pi)
	}
	// the first trials on a chain without shield history are scripted: the smallest inputs on which the split is known to fall short
	// (R18: two providers of 3, shield 4, loss 2; three providers of 100,000,000, loss 100,000,001), at exactly full utilisation
	type reimbScript struct {
		cs   []int64
		loss int64
	}
	scripts := []reimbScript{{[]int64{3, 3}, 2}, {[]int64{100000000, 100000000, 100000000}, 100000001}, {[]int64{7, 7, 7}, 2}}
	trials := 10 + rng.Intn(8)
	for trial := 0; trial < trials; trial++ {
		ctx, _ := ctx0.CacheContext()
		how := D{"base": base}
		var script *reimbScript
		if base == "scratch" && trial < len(scripts) {
			script = &scripts[trial]
			how["scripted"] = true
		}
		skip := func(why string) {
			out.emit(D{"k": "reimb", "trial": trial, "skipped": why, "how": how, "h": fmt.Sprint(a.Height)})
		}
		// one pool may carry all the shield, purchases of one unit are allowed (a parameter change, as a proposal would make it)
		pp := k.GetPoolParams(ctx)
		pp.PoolShieldLimit = sdk.OneDec()
		pp.MinShieldPurchase = coins(sdk.OneInt())
		k.SetPoolParams(ctx, pp)

		// ---- providers
		isProvider := func(addr sdk.AccAddress) bool { _, f := k.GetProvider(ctx, addr); return f }
		if base == "scratch" || rng.Intn(3) == 0 {
			var val stakingtypes.Validator
			okVal := false
			for _, v := range stk.GetAllValidators(ctx) {
				if v.IsBonded() && !v.IsJailed() {
					val, okVal = v, true
					break
				}
			}
			n := 1 + rng.Intn(4)
			kind, cs := reimbCollaterals(rng, n)
			if script != nil {
				n, kind, cs = len(script.cs), "scripted", script.cs
			}
			how["new_providers"] = kind
			added := 0
			perm := rng.Perm(len(a.Accts))
			for _, ai := range perm {
				if added >= n || !okVal {
					break
				}
				addr := a.Accts[ai].Addr
				if isProvider(addr) || addr.Equals(admin) {
					continue
				}
				c := sdk.NewInt(cs[added])
				extra := sdk.ZeroInt()
				if rng.Intn(3) == 0 && script == nil {
					extra = sdk.NewInt(rng.Int63n(1000))
				}
				val, _ = stk.GetValidator(ctx, val.GetOperator())
				if pi := catch(func() { _, _ = stk.Delegate(ctx, addr, c.Add(extra), stakingtypes.Unbonded, val, true) }); pi != nil {
					continue
				}
				bonded, _ := stakeOf(ctx, addr)
				c = sdk.MinInt(c, bonded)
				if !c.IsPositive() {
					continue
				}
				var err error
				if pi := catch(func() { err = k.DepositCollateral(ctx, addr, c) }); pi == nil && err == nil {
					added++
				}
			}
			how["added"] = added
		}
		provs := k.GetAllProviders(ctx)
		if len(provs) == 0 || !k.GetTotalCollateral(ctx).IsPositive() {
			skip("no collateral")
			continue
		}
		// an early withdrawal (before the claim): it counts against the free collateral
		if rng.Intn(3) == 0 && script == nil {
			p := provs[rng.Intn(len(provs))]
			addr, _ := sdk.AccAddressFromBech32(p.Address)
			room := sdk.MinInt(p.Collateral.Sub(p.Withdrawing), free(ctx).Sub(sdk.OneInt()))
			if room.IsPositive() {
				w := rnd(room)
				if rng.Intn(2) == 0 {
					w = room
				}
				if w.IsPositive() {
					wctx := ctx.WithBlockTime(ctx.BlockTime().Add(-time.Duration(rng.Intn(3)) * time.Second))
					if err := k.WithdrawCollateral(wctx, addr, w); err == nil {
						how["early_withdraw"] = w.String()
					}
				}
			}
		}

		// ---- the purchase the claim is about
		var purchaser sdk.AccAddress
		for _, ai := range rng.Perm(len(a.Accts)) {
			if !a.Accts[ai].Addr.Equals(admin) {
				purchaser = a.Accts[ai].Addr
				break
			}
		}
		fr := free(ctx)
		var poolID, purchaseID uint64
		var loss sdk.Int
		if fr.IsPositive() {
			// a fresh pool with a limit that never binds
			sponsor := fmt.Sprintf("reimb-%d-%d", seed, trial)
			one := coins(sdk.OneInt())
			var err error
			if pi := catch(func() {
				poolID, err = k.CreatePool(ctx, admin, one, shieldtypes.MixedCoins{Native: one}, sponsor, purchaser, "reimburse", sdk.NewInt(1000000000000000))
			}); pi != nil || err != nil {
				skip(fmt.Sprint("create pool: ", err, pi))
				continue
			}
			fr = free(ctx)
			if !fr.IsPositive() {
				// the pool's own unit of shield took the last free unit: claim on it
				purchaser = admin
			}
		}
		if fr.IsPositive() {
			total := k.GetTotalCollateral(ctx)
			switch rng.Intn(6) {
			case 0:
				loss = sdk.OneInt()
			case 1:
				loss = fr
			case 2:
				loss = sdk.MinInt(fr, total.QuoRaw(3).AddRaw(1))
			case 3:
				loss = sdk.MaxInt(sdk.OneInt(), fr.QuoRaw(2))
			default:
				loss = sdk.MaxInt(sdk.OneInt(), rnd(fr))
			}
			if script != nil {
				loss = sdk.MinInt(fr, sdk.NewInt(script.loss))
			}
			amt := loss
			if rng.Intn(2) == 0 && script == nil {
				amt = loss.Add(rnd(fr.Sub(loss)))
			}
			who, id, why := buy(ctx, poolID, amt, purchaser, "claimed")
			if why != "" {
				skip("purchase: " + why)
				continue
			}
			purchaser, purchaseID = who, id
			how["claim_on"] = "new_purchase"
		} else {
			// no free collateral: claim on a purchase the history left
			found := false
			for _, pl := range k.GetAllPurchaseLists(ctx) {
				for _, e := range pl.Entries {
					if e.Shield.IsPositive() && !found {
						found = true
						poolID, purchaseID = pl.PoolId, e.PurchaseId
						purchaser, _ = sdk.AccAddressFromBech32(pl.Purchaser)
						loss = sdk.MaxInt(sdk.OneInt(), rnd(e.Shield))
					}
				}
			}
			if !found {
				skip("nothing to claim on")
				continue
			}
			how["claim_on"] = "existing_purchase"
		}
		// ---- the claim is submitted: the collateral is secured as gov's updateAfterSubmitProposal does
		lock := gk.GetVotingParams(ctx).VotingPeriod * 2
		{
			var err error
			if pi := catch(func() { err = k.SecureCollaterals(ctx, poolID, purchaser, purchaseID, coins(loss), lock) }); pi != nil || err != nil {
				skip(fmt.Sprint("secure: ", err, pi))
				continue
			}
		}
		// ---- later purchases use the free collateral up to the target
		target := []string{"full", "full", "full", "one_below", "one_above", "uniform", "as_is"}[rng.Intn(7)]
		if script != nil {
			target = "full"
			if trial == 2 {
				target = "one_below"
			}
		}
		how["target"] = target
		fr = free(ctx)
		fill := sdk.ZeroInt()
		switch target {
		case "full":
			fill = fr
		case "one_below":
			fill = fr.Sub(sdk.OneInt())
		case "one_above":
			// one unit more than there is collateral for: must be refused
			other := a.Accts[rng.Intn(len(a.Accts))].Addr
			if _, _, why := buy(ctx, poolID, fr.Add(sdk.OneInt()), other, "too much"); why == "" {
				how["over_purchase"] = "accepted"
			} else {
				how["over_purchase"] = "refused"
			}
			fill = free(ctx)
		case "uniform":
			fill = rnd(fr)
		}
		for parts := 1 + rng.Intn(3); parts > 0 && fill.IsPositive(); parts-- {
			part := fill
			if parts > 1 {
				part = sdk.MaxInt(sdk.OneInt(), rnd(fill))
			}
			other := a.Accts[rng.Intn(len(a.Accts))].Addr
			if _, _, why := buy(ctx, poolID, part, other, "fill"); why == "" {
				fill = fill.Sub(part)
			}
		}
		// a late withdrawal (after the shield was sold): the withdraw period protects the purchasers, the request itself is free
		if rng.Intn(6) == 0 && script == nil {
			provs = k.GetAllProviders(ctx)
			p := provs[rng.Intn(len(provs))]
			addr, _ := sdk.AccAddressFromBech32(p.Address)
			room := p.Collateral.Sub(p.Withdrawing)
			if room.IsPositive() {
				w := sdk.MaxInt(sdk.OneInt(), rnd(room))
				if err := k.WithdrawCollateral(ctx, addr, w); err == nil {
					how["late_withdraw"] = w.String()
				}
			}
		}

		// ---- the claim passed: the handler's call
		stake := []interface{}{}
		for _, p := range k.GetAllProviders(ctx) {
			addr, err := sdk.AccAddressFromBech32(p.Address)
			if err != nil {
				continue
			}
			b, u := stakeOf(ctx, addr)
			stake = append(stake, D{"addr": Hex(addr), "bonded": b.String(), "unbonding": u.String()})
		}
		pre := observeModule(a, ctx, "shield")
		balPre := bk.GetBalance(ctx, modAddr, Bond).Amount
		pid := uint64(1000 + trial)
		outcome := "ok"
		var err error
		if pi := catch(func() { err = k.CreateReimbursement(ctx, pid, coins(loss), purchaser) }); pi != nil {
			outcome = "panic: " + trunc(pi.Value, 160)
		} else if err != nil {
			outcome = "error: " + err.Error()
		}
		post := observeModule(a, ctx, "shield")
		out.emit(D{"k": "reimb", "trial": trial, "how": how, "h": fmt.Sprint(a.Height), "t": nsStr(ctx.BlockTime()),
			"pre": pre, "post": post, "stake": stake, "pid": pid, "loss": loss.String(), "beneficiary": Hex(purchaser),
			"pool": poolID, "purchase": purchaseID, "mod": Hex(modAddr), "bonded_pool": Hex(authtypes.NewModuleAddress(stakingtypes.BondedPoolName)),
			"mod_pre": balPre.String(), "mod_delta": bk.GetBalance(ctx, modAddr, Bond).Amount.Sub(balPre).String(), "outcome": outcome})
	}
	return a
}
