package sim

// Profile "ubdqueue": the shield module's manipulation of the staking module's unbonding queue (C09, C04; Model/UbdQueue.lean).
//
// A shield (or staking) history is run first, quietly, to reach a state with providers, delegations, unbonding entries and a
// completion queue.  On that state, in a cache context that is thrown away afterwards, a provider and a bystander delegate to
// several validators and undelegate small amounts through the REAL staking keeper's Undelegate at block times chosen so that
// the completion times fall on a small grid around a `delayedTime`: several entries per pair, two entries of one pair with the
// same completion time, slices shared by both delegators, slices of length one, entries exactly at `delayedTime`.  All
// unbonding delegations and ALL queue slices are dumped; then the REAL shield keeper's DelayUnbonding is called with an amount
// drawn around the boundaries of what the candidates hold (dump again); in some trials the REAL PayFromUnbondings is called on
// one element of GetSortedUnbondingDelegations (dump again); then time advances in the same cache context and the REAL staking
// end-blocker (BlockValidatorUpdates) runs at a few block times around `delayedTime` (dump after each, with what the two
// delegators were paid back).  One line per trial.  The Lean driver (Drivers/UbdD.lean) runs Model/UbdQueue.lean on each
// observed state, compares, and evaluates the queue invariants on the observations alone.

import (
	"fmt"
	"math/rand"
	"sort"
	"time"

	sdk "github.com/cosmos/cosmos-sdk/types"
	minttypes "github.com/cosmos/cosmos-sdk/x/mint/types"
	stakingtypes "github.com/cosmos/cosmos-sdk/x/staking/types"
)

func init() {
	Profiles["ubdqueue"] = Profile{Mods: nil, Run: UbdQueueProfile}
}

func UbdQueueProfile(seed int64, out *Recorder, nOps int) *Chain {
	rng := newRng(seed ^ 0x0bd9)
	quiet := NewRecorder(nopWriter{}, nil)
	base := "shield"
	if seed%4 == 3 {
		base = "staking"
	}
	a := Profiles[base].Run(seed, quiet, nOps)
	out.Reset()
	names := D{}
	for _, ac := range a.Accts {
		names[ac.Name] = Hex(ac.Addr)
	}
	out.emit(D{"k": "genesis", "seed": seed, "h": a.Cfg.H0, "t": nsStr(a.Cfg.T0), "names": names, "profile": "ubdqueue", "base": base, "st": D{}})
	halted := a.Halted
	a.Halted = "" // a halt of the base history is C08's matter
	if halted != "" || a.InBlock {
		return a
	}
	ctx0 := a.Ctx()
	sk := a.App.VerifStakingKeeper()
	k := a.App.VerifShieldKeeper()
	bk := a.App.VerifBankKeeper()
	cdc := a.App.VerifAppCodec()
	far := time.Unix(1<<40, 0).UTC()

	hexDel := func(bech string) string {
		ad, err := sdk.AccAddressFromBech32(bech)
		if err != nil {
			return "?" + bech
		}
		return Hex(ad)
	}
	hexVal := func(bech string) string {
		ad, err := sdk.ValAddressFromBech32(bech)
		if err != nil {
			return "?" + bech
		}
		return Hex(ad)
	}
	// the whole unbonding state: every unbonding delegation in store order, every queue slice in store order
	dump := func(ctx sdk.Context) D {
		ubds := []interface{}{}
		sk.IterateUnbondingDelegations(ctx, func(_ int64, u stakingtypes.UnbondingDelegation) bool {
			es := []interface{}{}
			for _, e := range u.Entries {
				es = append(es, []interface{}{nsStr(e.CompletionTime), e.Balance.String()})
			}
			ubds = append(ubds, D{"d": hexDel(u.DelegatorAddress), "v": hexVal(u.ValidatorAddress), "es": es})
			return false
		})
		queue := []interface{}{}
		it := sk.UBDQueueIterator(ctx, far)
		for ; it.Valid(); it.Next() {
			var slice stakingtypes.DVPairs
			cdc.MustUnmarshalBinaryBare(it.Value(), &slice)
			t, err := sdk.ParseTimeBytes(it.Key()[1:])
			if err != nil {
				continue
			}
			ps := []interface{}{}
			for _, p := range slice.Pairs {
				ps = append(ps, []interface{}{hexDel(p.DelegatorAddress), hexVal(p.ValidatorAddress)})
			}
			queue = append(queue, D{"t": nsStr(t), "ps": ps})
		}
		it.Close()
		return D{"ubds": ubds, "queue": queue}
	}
	fund := func(ctx sdk.Context, addr sdk.AccAddress, amt int64) {
		if bk.GetBalance(ctx, addr, Bond).Amount.GTE(sdk.NewInt(amt)) {
			return
		}
		coins := sdk.NewCoins(sdk.NewCoin(Bond, sdk.NewInt(amt)))
		if err := bk.MintCoins(ctx, minttypes.ModuleName, coins); err == nil {
			_ = bk.SendCoinsFromModuleToAccount(ctx, minttypes.ModuleName, addr, coins)
		}
	}

	var provs []sdk.AccAddress
	for _, p := range k.GetAllProviders(ctx0) {
		if addr, err := sdk.AccAddressFromBech32(p.Address); err == nil {
			provs = append(provs, addr)
		}
	}
	offsets := []time.Duration{-2 * time.Hour, -time.Hour, -time.Second, -1, 0, 1, time.Second, time.Hour}
	trials := 6 + rng.Intn(6)
	for trial := 0; trial < trials; trial++ {
		ctx, _ := ctx0.CacheContext()
		now := ctx.BlockTime()
		ubt := sk.UnbondingTime(ctx)
		// the two delegators
		var provider sdk.AccAddress
		if len(provs) > 0 && rng.Intn(4) != 0 {
			provider = provs[rng.Intn(len(provs))]
		} else {
			provider = a.Accts[rng.Intn(len(a.Accts))].Addr
		}
		bystander := a.Accts[rng.Intn(len(a.Accts))].Addr
		for i := 0; bystander.Equals(provider) && i < 20; i++ {
			bystander = a.Accts[rng.Intn(len(a.Accts))].Addr
		}
		if bystander.Equals(provider) {
			continue
		}
		// the validators
		var vals []stakingtypes.Validator
		for _, v := range sk.GetAllValidators(ctx) {
			if !v.IsJailed() && v.Tokens.IsPositive() && v.DelegatorShares.IsPositive() {
				vals = append(vals, v)
			}
		}
		if len(vals) == 0 {
			continue
		}
		rng.Shuffle(len(vals), func(i, j int) { vals[i], vals[j] = vals[j], vals[i] })
		if len(vals) > 3 {
			vals = vals[:3]
		}
		// the lock's end, and the grid of completion times around it (a small pool, so that times collide)
		durs := []time.Duration{time.Hour * 3, 24 * time.Hour, 4 * 24 * time.Hour, ubt, ubt / 2}
		delayed := now.Add(durs[rng.Intn(len(durs))])
		if !delayed.After(now.Add(2 * time.Hour)) {
			delayed = now.Add(3 * time.Hour)
		}
		pool := []time.Time{}
		for n := 2 + rng.Intn(4); n > 0; n-- {
			pool = append(pool, delayed.Add(offsets[rng.Intn(len(offsets))]))
		}
		if rng.Intn(3) == 0 {
			pool = append(pool, delayed)
		}
		made := 0
		unsorted := rng.Intn(4) == 0
		for wi, who := range []sdk.AccAddress{provider, bystander} {
			for vi, v := range vals {
				if vi > 0 && rng.Intn(3) == 0 {
					continue
				}
				valAddr := v.GetOperator()
				// a delegation to undelegate from
				if del, found := sk.GetDelegation(ctx, who, valAddr); !found || v.TokensFromShares(del.Shares).TruncateInt().LT(sdk.NewInt(5000)) {
					fund(ctx, who, 2000000)
					cur, _ := sk.GetValidator(ctx, valAddr)
					catch(func() { _, _ = sk.Delegate(ctx, who, sdk.NewInt(1000000), stakingtypes.Unbonded, cur, true) })
				}
				n := 1 + rng.Intn(3)
				if wi == 0 && vi == 0 {
					n = 2 + rng.Intn(3)
				}
				// the SDK appends entries: completion times grow along the entry list unless the unbonding time was lowered in
				// between; one trial in four draws them in any order (the re-sorting loop of DelayUnbonding then meets unsorted lists)
				ts := []time.Time{}
				for ; n > 0; n-- {
					ts = append(ts, pool[rng.Intn(len(pool))])
				}
				if !unsorted {
					sort.Slice(ts, func(i, j int) bool { return ts[i].Before(ts[j]) })
				}
				for _, t := range ts {
					amt := sdk.NewInt(1 + rng.Int63n(900))
					shares, err := sk.ValidateUnbondAmount(ctx, who, valAddr, amt)
					if err != nil {
						continue
					}
					tctx := ctx.WithBlockTime(t.Add(-ubt))
					var uerr error
					if pi := catch(func() { _, uerr = sk.Undelegate(tctx, who, valAddr, shares) }); pi == nil && uerr == nil {
						made++
					}
				}
			}
		}
		pre := dump(ctx)
		// what the provider's candidates hold
		cand := sdk.ZeroInt()
		latest := sdk.ZeroInt()
		var latestT time.Time
		for _, u := range sk.GetAllUnbondingDelegations(ctx, provider) {
			for _, e := range u.Entries {
				if !e.CompletionTime.After(delayed) {
					cand = cand.Add(e.Balance)
					if e.CompletionTime.After(latestT) {
						latestT, latest = e.CompletionTime, e.Balance
					}
				}
			}
		}
		var amount sdk.Int
		how := ""
		switch rng.Intn(10) {
		case 0:
			amount, how = sdk.ZeroInt(), "zero"
		case 1:
			amount, how = sdk.OneInt(), "one"
		case 2:
			amount, how = cand, "exact"
		case 3:
			amount, how = cand.SubRaw(1), "exact_minus_1"
		case 4:
			amount, how = cand.AddRaw(1), "exact_plus_1"
		case 5:
			amount, how = cand.AddRaw(1+rng.Int63n(100000)), "over"
		case 6:
			amount, how = latest, "latest_entry"
		case 7:
			amount, how = latest.AddRaw(1), "latest_entry_plus_1"
		default:
			amount, how = sdk.ZeroInt(), "uniform"
			if cand.IsPositive() {
				amount = sdk.NewInt(rng.Int63n(cand.Int64() + 1))
			}
		}
		outcome := "ok"
		var err error
		if pi := catch(func() { err = k.DelayUnbonding(ctx, provider, amount, delayed) }); pi != nil {
			outcome = "panic: " + pi.Value
		} else if err != nil {
			outcome = "error: " + err.Error()
		}
		line := D{"k": "ubdq", "trial": trial, "h": fmt.Sprint(a.Height), "provider": Hex(provider), "bystander": Hex(bystander),
			"now": nsStr(now), "delayed": nsStr(delayed), "amount": amount.String(), "how": how, "made": made, "unsorted": unsorted,
			"pre": pre, "outcome": outcome, "post": dump(ctx)}
		// a payout from one unbonding entry (the real PayFromUnbondings on an element of the sorted snapshot)
		if rng.Intn(2) == 0 {
			if snap := k.GetSortedUnbondingDelegations(ctx, provider); len(snap) > 0 {
				el := snap[rng.Intn(len(snap))]
				bal := el.Entries[0].Balance
				var payout sdk.Int
				phow := ""
				switch rng.Intn(4) {
				case 0:
					payout, phow = bal, "all"
				case 1:
					payout, phow = sdk.OneInt(), "one"
				case 2:
					payout, phow = bal.SubRaw(1), "all_but_one"
				default:
					payout, phow = sdk.NewInt(1+rng.Int63n(bal.Int64()+1)), "uniform"
					if payout.GT(bal) {
						payout = bal
					}
				}
				if payout.IsPositive() {
					pout := "ok"
					if pi := catch(func() { k.PayFromUnbondings(ctx, el, payout) }); pi != nil {
						pout = "panic: " + pi.Value
					}
					line["pay"] = D{"v": hexVal(el.ValidatorAddress), "t": nsStr(el.Entries[0].CompletionTime), "bal": bal.String(),
						"payout": payout.String(), "how": phow, "outcome": pout, "post": dump(ctx)}
				}
			}
		}
		// the staking end-blocker at a few block times around the lock's end
		var times []time.Time
		switch rng.Intn(3) {
		case 0:
			times = []time.Time{delayed.Add(-time.Hour - time.Second), delayed.Add(-1), delayed, delayed.Add(2 * time.Hour)}
		case 1:
			times = []time.Time{delayed.Add(-2 * time.Hour), delayed.Add(-time.Second), delayed.Add(time.Second), delayed.Add(ubt)}
		default:
			times = []time.Time{delayed.Add(-time.Hour), delayed.Add(1), delayed.Add(ubt + time.Hour)}
		}
		blocks := []interface{}{}
		for i, t := range times {
			if !t.After(now) {
				continue
			}
			ectx := ctx.WithBlockTime(t).WithBlockHeight(ctx.BlockHeight() + int64(i) + 1)
			balP := bk.GetBalance(ectx, provider, Bond).Amount
			balB := bk.GetBalance(ectx, bystander, Bond).Amount
			bout := "ok"
			if pi := catch(func() { sk.BlockValidatorUpdates(ectx) }); pi != nil {
				bout = "panic: " + pi.Value
			}
			blocks = append(blocks, D{"now": nsStr(t), "outcome": bout, "post": dump(ectx),
				"paid_provider": bk.GetBalance(ectx, provider, Bond).Amount.Sub(balP).String(),
				"paid_bystander": bk.GetBalance(ectx, bystander, Bond).Amount.Sub(balB).String()})
		}
		line["blocks"] = blocks
		out.emit(line)
	}
	return a
}

var _ = rand.Int
