package sim

// Profile "payout": the arithmetic of a claim payout out of a provider's stake (C04, Model/Payout.lean).
//
// A shield history is run first (quietly) to reach a state with providers, delegations to several validators, slashed
// validators, unbonding entries and redelegations.  On that state, in a cache context that is thrown away afterwards, the
// validators a provider delegates to are slashed by random fractions (so the share/token rates get awkward), and the REAL
// keeper's MakePayoutByProviderDelegations is called with amounts drawn around the boundaries of what the stake covers.
// One line per call: the delegations and unbonding entries before and after, the coins that arrived in the module account,
// and whether the call returned, failed or panicked.  The Lean driver runs `Payout.makePayout` on the same input.

import (
	"fmt"
	"math/rand"
	"time"

	sdk "github.com/cosmos/cosmos-sdk/types"
	authtypes "github.com/cosmos/cosmos-sdk/x/auth/types"

	vesting "github.com/certikfoundation/shentu/x/auth/types"
	shieldtypes "github.com/certikfoundation/shentu/x/shield/types"
)

func init() {
	Profiles["payout"] = Profile{Mods: nil, Run: PayoutProfile}
}

var payoutFractions = []string{
	"0.07", "0.01", "0.05", "0.333333333333333333", "0.5", "0.000001", "0.999", "0.142857142857142857", "0.000000000000000001",
}

func randFraction(rng *rand.Rand) sdk.Dec {
	if rng.Intn(3) == 0 { // any 18-digit fraction below 0.9
		return sdk.NewDecWithPrec(rng.Int63n(900000000000000000), 18)
	}
	return sdk.MustNewDecFromStr(payoutFractions[rng.Intn(len(payoutFractions))])
}

func PayoutProfile(seed int64, out *Recorder, nOps int) *Chain {
	rng := newRng(seed ^ 0x70a1)
	quiet := NewRecorder(nopWriter{}, nil)
	a := Profiles["shield"].Run(seed, quiet, nOps)
	out.Reset()
	names := D{}
	for _, ac := range a.Accts {
		names[ac.Name] = Hex(ac.Addr)
	}
	out.emit(D{"k": "genesis", "seed": seed, "h": a.Cfg.H0, "t": nsStr(a.Cfg.T0), "names": names, "profile": "payout", "st": D{}})
	halted := a.Halted
	a.Halted = "" // a halt of the base history is C08's matter (the shield engine of C08 runs the same histories)
	if halted != "" || a.InBlock {
		return a
	}
	ctx0 := a.Ctx()
	sk := a.App.VerifStakingKeeper()
	k := a.App.VerifShieldKeeper()
	bk := a.App.VerifBankKeeper()
	modAddr := authtypes.NewModuleAddress(shieldtypes.ModuleName)
	var provs []sdk.AccAddress
	for _, p := range k.GetAllProviders(ctx0) {
		addr, err := sdk.AccAddressFromBech32(p.Address)
		if err != nil {
			continue
		}
		if len(sk.GetAllDelegatorDelegations(ctx0, addr)) > 0 || len(sk.GetAllUnbondingDelegations(ctx0, addr)) > 0 {
			provs = append(provs, addr)
		}
	}
	if len(provs) == 0 {
		return a
	}
	readDels := func(ctx sdk.Context, addr sdk.AccAddress, vals []string) []interface{} {
		// the delegations in store order; with `vals` given, the same validators again (a removed delegation has no shares)
		res := []interface{}{}
		if vals == nil {
			for _, d := range sk.GetAllDelegatorDelegations(ctx, addr) {
				v, _ := sk.GetValidator(ctx, d.GetValidatorAddr())
				res = append(res, D{"val": d.ValidatorAddress, "shares": d.Shares.String(), "vtokens": v.Tokens.String(), "vshares": v.DelegatorShares.String()})
			}
			return res
		}
		for _, va := range vals {
			valAddr, _ := sdk.ValAddressFromBech32(va)
			shares := sdk.ZeroDec()
			if d, found := sk.GetDelegation(ctx, addr, valAddr); found {
				shares = d.Shares
			}
			v, found := sk.GetValidator(ctx, valAddr)
			if !found {
				res = append(res, D{"val": va, "shares": shares.String(), "vtokens": "0", "vshares": "0.000000000000000000", "gone": true})
				continue
			}
			res = append(res, D{"val": va, "shares": shares.String(), "vtokens": v.Tokens.String(), "vshares": v.DelegatorShares.String()})
		}
		return res
	}
	readUbds := func(ctx sdk.Context, addr sdk.AccAddress) []interface{} {
		res := []interface{}{}
		for _, u := range sk.GetAllUnbondingDelegations(ctx, addr) {
			for _, e := range u.Entries {
				// every entry must stay in the staking module's completion queue (the time slice of its completion time names
				// the delegator / validator pair), or it never completes
				queued := false
				for _, pair := range sk.GetUBDQueueTimeSlice(ctx, e.CompletionTime) {
					if pair.DelegatorAddress == u.DelegatorAddress && pair.ValidatorAddress == u.ValidatorAddress {
						queued = true
					}
				}
				res = append(res, D{"val": u.ValidatorAddress, "t": nsStr(e.CompletionTime), "bal": e.Balance.String(), "queued": queued})
			}
		}
		return res
	}
	trials := 6 + rng.Intn(10)
	for trial := 0; trial < trials; trial++ {
		addr := provs[rng.Intn(len(provs))]
		ctx, _ := ctx0.CacheContext()
		// slashes: awkward exchange rates
		slashed := 0
		for _, d := range sk.GetAllDelegatorDelegations(ctx, addr) {
			if rng.Intn(2) == 0 {
				continue
			}
			v, found := sk.GetValidator(ctx, d.GetValidatorAddr())
			if !found || v.IsUnbonded() {
				continue
			}
			cons, err := v.GetConsAddr()
			if err != nil {
				continue
			}
			fr := randFraction(rng)
			for n := 1 + rng.Intn(2); n > 0; n-- {
				if pi := catch(func() { sk.Slash(ctx, cons, ctx.BlockHeight(), v.ConsensusPower(), fr) }); pi == nil {
					slashed++
				}
			}
		}
		// unbonding entries (the staking keeper's own Undelegate; different completion times)
		for i, d := range sk.GetAllDelegatorDelegations(ctx, addr) {
			if rng.Intn(3) != 0 {
				continue
			}
			for n := 1 + rng.Intn(2); n > 0; n-- {
				cur, found := sk.GetDelegation(ctx, addr, d.GetValidatorAddr())
				if !found || !cur.Shares.IsPositive() {
					break
				}
				part := cur.Shares.MulInt64(int64(1 + rng.Intn(9))).QuoInt64(10)
				if rng.Intn(5) == 0 {
					part = cur.Shares
				}
				// completion times collide on purpose: entries of different validators then share one slice of the completion queue
				_ = i
				tctx := ctx.WithBlockTime(ctx.BlockTime().Add(time.Duration(rng.Intn(2)) * time.Second))
				catch(func() { sk.Undelegate(tctx, addr, d.GetValidatorAddr(), part) })
			}
		}
		pre := readDels(ctx, addr, nil)
		var vals []string
		total := sdk.ZeroInt()
		for _, d := range sk.GetAllDelegatorDelegations(ctx, addr) {
			vals = append(vals, d.ValidatorAddress)
			v, _ := sk.GetValidator(ctx, d.GetValidatorAddr())
			total = total.Add(v.TokensFromShares(d.Shares).TruncateInt())
		}
		ubdsPre := readUbds(ctx, addr)
		ubdSum := sdk.ZeroInt()
		for _, u := range sk.GetAllUnbondingDelegations(ctx, addr) {
			for _, e := range u.Entries {
				ubdSum = ubdSum.Add(e.Balance)
			}
		}
		all := total.Add(ubdSum)
		rnd := func(max sdk.Int) sdk.Int { // uniform in [0, max]
			if !max.IsPositive() {
				return sdk.ZeroInt()
			}
			return sdk.NewInt(rng.Int63n(max.Int64() + 1))
		}
		var purchased, payout sdk.Int
		switch rng.Intn(6) {
		case 0:
			purchased = sdk.ZeroInt()
		case 1:
			purchased = total
		case 2:
			purchased = total.Add(rnd(ubdSum))
		default:
			purchased = rnd(all)
		}
		room := all.Sub(purchased) // what the stake still covers
		switch rng.Intn(10) {
		case 0:
			payout = sdk.OneInt()
		case 1:
			payout = room // everything that is left
		case 2:
			payout = room.Add(sdk.NewInt(1 + rng.Int63n(3))) // not covered: the code must refuse, not pay short
		case 3:
			payout = sdk.MaxInt(total.Sub(purchased), sdk.OneInt()) // exactly what the delegations cover
		case 4:
			payout = sdk.MaxInt(total.Sub(purchased), sdk.ZeroInt()).Add(sdk.OneInt())
		default:
			payout = rnd(room)
		}
		if !payout.IsPositive() {
			payout = sdk.OneInt()
		}
		// in one trial out of three the provider is an account with locked coins (a ManualVestingAccount that delegated and
		// deposited collateral): the payout must not unlock anything.  With `tracked`, its delegation tracking says that locked
		// coins are delegated (what a bank keeper that persisted the tracking would have recorded).
		var mva D
		ak := a.App.VerifAccountKeeper()
		if base, ok := ak.GetAccount(ctx, addr).(*authtypes.BaseAccount); ok && rng.Intn(3) == 0 && all.IsPositive() {
			ov := sdk.NewInt(1 + rng.Int63n(all.Int64()))
			vested := sdk.NewInt(rng.Int63n(ov.Int64()/2 + 1))
			acc := vesting.NewManualVestingAccount(base, sdk.NewCoins(sdk.NewCoin(Bond, ov)), sdk.NewCoins(sdk.NewCoin(Bond, vested)), provs[(rng.Intn(len(provs)))])
			dv := sdk.ZeroInt()
			if rng.Intn(3) == 0 {
				dv = sdk.MinInt(ov, total)
				acc.DelegatedVesting = sdk.NewCoins(sdk.NewCoin(Bond, dv))
			}
			ak.SetAccount(ctx, acc)
			mva = D{"ov": ov.String(), "vested_pre": vested.String(), "dv_pre": dv.String()}
		}
		recPre := sdk.ZeroInt()
		if p, found := k.GetProvider(ctx, addr); found {
			recPre = p.DelegationBonded
		}
		balPre := bk.GetBalance(ctx, modAddr, Bond).Amount
		outcome := "ok"
		var err error
		if pi := catch(func() { err = k.MakePayoutByProviderDelegations(ctx, addr, purchased, payout) }); pi != nil {
			outcome = "panic: " + pi.Value
		} else if err != nil {
			outcome = "error: " + err.Error()
		}
		recPost := sdk.ZeroInt()
		if p, found := k.GetProvider(ctx, addr); found {
			recPost = p.DelegationBonded
		}
		if mva != nil {
			if acc, ok := ak.GetAccount(ctx, addr).(*vesting.ManualVestingAccount); ok {
				mva["vested_post"] = acc.VestedCoins.AmountOf(Bond).String()
				mva["dv_post"] = acc.DelegatedVesting.AmountOf(Bond).String()
			} else {
				mva = nil
			}
		}
		line := D{"k": "payout", "trial": trial, "provider": Hex(addr), "slashes": slashed,
			"dels": pre, "dels_post": readDels(ctx, addr, vals), "ubds": ubdsPre, "ubds_post": readUbds(ctx, addr),
			"purchased": purchased.String(), "payout": payout.String(), "recorded_pre": recPre.String(), "recorded_post": recPost.String(),
			"mod_delta": bk.GetBalance(ctx, modAddr, Bond).Amount.Sub(balPre).String(), "outcome": outcome,
			"h": fmt.Sprint(a.Height)}
		if mva != nil {
			line["mva"] = mva
		}
		out.emit(line)
	}
	return a
}
