// Package sim drives the real CertiKApp over ABCI and records what it does.
package sim

import (
	"crypto/sha256"
	"encoding/hex"
	"encoding/json"
	"fmt"
	"github.com/cosmos/cosmos-sdk/baseapp"
	"math/rand"
	"os"
	"runtime/debug"
	"sort"
	"strings"
	"sync"
	"time"

	abci "github.com/tendermint/tendermint/abci/types"
	"github.com/tendermint/tendermint/libs/log"
	tmproto "github.com/tendermint/tendermint/proto/tendermint/types"
	dbm "github.com/tendermint/tm-db"

	codectypes "github.com/cosmos/cosmos-sdk/codec/types"
	"github.com/cosmos/cosmos-sdk/crypto/keys/ed25519"
	"github.com/cosmos/cosmos-sdk/crypto/keys/secp256k1"
	sdksimapp "github.com/cosmos/cosmos-sdk/simapp"
	"github.com/cosmos/cosmos-sdk/simapp/helpers"
	sdk "github.com/cosmos/cosmos-sdk/types"
	authtypes "github.com/cosmos/cosmos-sdk/x/auth/types"
	banktypes "github.com/cosmos/cosmos-sdk/x/bank/types"
	slashingtypes "github.com/cosmos/cosmos-sdk/x/slashing/types"
	stakingtypes "github.com/cosmos/cosmos-sdk/x/staking/types"

	"github.com/certikfoundation/shentu/app"
	appparams "github.com/certikfoundation/shentu/app/params"
	"github.com/certikfoundation/shentu/common"
)

const ChainID = "verif"
const Bond = "uctk"

var sealOnce sync.Once

// SetupConfig seals the bech32 prefixes exactly as the certik binary does.
func SetupConfig() {
	sealOnce.Do(func() {
		cfg := sdk.GetConfig()
		cfg.SetBech32PrefixForAccount(common.Bech32PrefixAccAddr, common.Bech32PrefixAccPub)
		cfg.SetBech32PrefixForValidator(common.Bech32PrefixValAddr, common.Bech32PrefixValPub)
		cfg.SetBech32PrefixForConsensusNode(common.Bech32PrefixConsAddr, common.Bech32PrefixConsPub)
		cfg.Seal()
	})
}

// Acct is a key pair the harness can sign with.
type Acct struct {
	Name string
	Priv *secp256k1.PrivKey
	Addr sdk.AccAddress
}

func NewAcct(name string) Acct {
	p := secp256k1.GenPrivKeyFromSecret([]byte("verif-" + name))
	return Acct{Name: name, Priv: p, Addr: sdk.AccAddress(p.PubKey().Address())}
}

// GenCfg describes the generated genesis.
type GenCfg struct {
	Seed       int64
	H0         int64 // initial height
	T0         time.Time
	NAcc       int
	NVal       int // first NVal accounts are validator operators (bonded at genesis)
	NCert      int // accounts NVal .. NVal+NCert-1 are certifiers
	AdminIdx   int // shield admin
	ExtraDenom []string
	Balance    int64 // bond-denom balance per account
	ValStake   []int64
	MinSelf    []int64 // minimum self-delegation per genesis validator (default 1)
	Votes      bool    // deliver a LastCommitInfo with every block (needed by the slashing module's downtime logic)
	// Patch lets a profile edit module genesis (parameters) before InitChain.
	Patch func(enc appparams.EncodingConfig, gs app.GenesisState)
	DB    dbm.DB
}

// Chain is one running instance of the real application.
type Chain struct {
	App     *app.CertiKApp
	Enc     appparams.EncodingConfig
	Cfg     GenCfg
	Accts   []Acct
	ByName  map[string]int
	Height  int64
	Time    time.Time
	InBlock bool
	Halted  string
	Rng     *rand.Rand
	Out     *Recorder
	DB      dbm.DB
	ValPriv []*ed25519.PrivKey
	Genesis []byte
	Offline map[string]bool // operators (hex) whose validators do not sign (downtime)
	// PendingEvidence is delivered with the next BeginBlock
	PendingEvidence []abci.Evidence
	// Blocks is the log of everything this node was fed and what it answered (C10, C20: replay on other instances).
	Blocks []*BlockRec
}

// BlockRec is one block as consensus would deliver it, with the node's answers.
type BlockRec struct {
	Height  int64
	Time    time.Time
	Txs     [][]byte
	Results []TxResult
	AppHash []byte
	Updates string
	Commit  abci.LastCommitInfo
	// Evidence of misbehaviour that consensus hands to this block (double signing): the slashing and evidence modules slash,
	// jail and tombstone the validator in BeginBlock
	Evidence []abci.Evidence
}

func (c *Chain) Header() tmproto.Header {
	return tmproto.Header{ChainID: ChainID, Height: c.Height, Time: c.Time, LastBlockId: LastBlockID(c.Height)}
}

// BlockHashOf is the hash the harness's consensus gives block h (a real chain's would be the header hash).
func BlockHashOf(h int64) []byte {
	x := sha256.Sum256([]byte(fmt.Sprintf("verif-block-%d", h)))
	return x[:]
}

// LastBlockID is what the header of block h says about block h-1.
func LastBlockID(h int64) tmproto.BlockID {
	if h <= 1 {
		return tmproto.BlockID{}
	}
	return tmproto.BlockID{Hash: BlockHashOf(h - 1)}
}

// Ctx returns a context over the state being built by the current block
// (deliver state) or, between blocks, over the last committed state.
func (c *Chain) Ctx() sdk.Context {
	if c.InBlock {
		return c.App.BaseApp.NewContext(false, c.Header())
	}
	return c.App.BaseApp.NewContext(true, c.Header())
}

// consensusParams: no block gas limit. With a limit, baseapp reports the transaction that crosses it as
// failed *after* its state was written (SDK 0.42 runTx); Tendermint never proposes such a block, and the
// artifact would make "a failed transaction changes nothing" unobservable.
func consensusParams() *abci.ConsensusParams {
	cp := *sdksimapp.DefaultConsensusParams
	blk := *cp.Block
	blk.MaxGas = -1
	cp.Block = &blk
	return &cp
}

func newApp(db dbm.DB, enc appparams.EncodingConfig) *app.CertiKApp {
	var opts []func(*baseapp.BaseApp)
	if os.Getenv("VERIF_TRACE") != "" { // debugging aid: panics inside a transaction are reported with their message and stack
		opts = append(opts, baseapp.SetTrace(true))
	}
	return app.NewCertiKApp(log.NewNopLogger(), db, nil, true, map[int64]bool{}, app.DefaultNodeHome, 0, enc, sdksimapp.EmptyAppOptions{}, opts...)
}

// NewChain builds genesis from cfg, runs InitChain and commits.
func NewChain(cfg GenCfg, out *Recorder) *Chain {
	SetupConfig()
	enc := app.MakeEncodingConfig()
	db := cfg.DB
	if db == nil {
		db = dbm.NewMemDB()
	}
	a := newApp(db, enc)
	c := &Chain{App: a, Enc: enc, Cfg: cfg, ByName: map[string]int{}, Rng: rand.New(rand.NewSource(cfg.Seed)), Out: out, DB: db, Offline: map[string]bool{}}
	gs := app.ModuleBasics.DefaultGenesis(enc.Marshaler)

	var accs []authtypes.GenesisAccount
	var bals []banktypes.Balance
	for i := 0; i < cfg.NAcc; i++ {
		ac := NewAcct(fmt.Sprintf("a%d", i))
		c.Accts = append(c.Accts, ac)
		c.ByName[ac.Name] = i
		accs = append(accs, authtypes.NewBaseAccount(ac.Addr, nil, 0, 0))
		coins := sdk.NewCoins(sdk.NewInt64Coin(Bond, cfg.Balance))
		for j, d := range cfg.ExtraDenom {
			coins = coins.Add(sdk.NewInt64Coin(d, 1000000+int64(i*1000+j)))
		}
		bals = append(bals, banktypes.Balance{Address: ac.Addr.String(), Coins: coins})
	}
	// validators
	var sg stakingtypes.GenesisState
	enc.Marshaler.MustUnmarshalJSON(gs[stakingtypes.ModuleName], &sg)
	bonded := sdk.ZeroInt()
	for i := 0; i < cfg.NVal; i++ {
		vp := ed25519.GenPrivKeyFromSecret([]byte(fmt.Sprintf("verif-val%d", i)))
		c.ValPriv = append(c.ValPriv, vp)
		pkAny, err := codectypes.NewAnyWithValue(vp.PubKey())
		if err != nil {
			panic(err)
		}
		amt := sdk.NewInt(cfg.ValStake[i%len(cfg.ValStake)])
		minSelf := sdk.OneInt()
		if len(cfg.MinSelf) > 0 {
			minSelf = sdk.NewInt(cfg.MinSelf[i%len(cfg.MinSelf)])
		}
		valAddr := sdk.ValAddress(c.Accts[i].Addr)
		val := stakingtypes.Validator{OperatorAddress: valAddr.String(), ConsensusPubkey: pkAny, Jailed: false, Status: stakingtypes.Bonded,
			Tokens: amt, DelegatorShares: amt.ToDec(), Description: stakingtypes.Description{Moniker: fmt.Sprintf("v%d", i)}, UnbondingTime: time.Unix(0, 0).UTC(),
			Commission: stakingtypes.NewCommission(sdk.ZeroDec(), sdk.ZeroDec(), sdk.ZeroDec()), MinSelfDelegation: minSelf}
		sg.Validators = append(sg.Validators, val)
		sg.Delegations = append(sg.Delegations, stakingtypes.NewDelegation(c.Accts[i].Addr, valAddr, amt.ToDec()))
		bonded = bonded.Add(amt)
	}
	sg.Params.BondDenom = Bond
	gs[stakingtypes.ModuleName] = enc.Marshaler.MustMarshalJSON(&sg)
	if cfg.Votes {
		// the slashing module expects signing information for every bonded validator, and a short window so that downtime is punished
		var slg slashingtypes.GenesisState
		enc.Marshaler.MustUnmarshalJSON(gs[slashingtypes.ModuleName], &slg)
		slg.Params.SignedBlocksWindow = 6
		slg.Params.MinSignedPerWindow = sdk.NewDecWithPrec(5, 1)
		slg.Params.DowntimeJailDuration = 30 * time.Second
		slg.Params.SlashFractionDowntime = sdk.NewDecWithPrec(7, 2)
		slg.Params.SlashFractionDoubleSign = sdk.NewDecWithPrec(8, 1)
		for _, vp := range c.ValPriv {
			ca := sdk.ConsAddress(vp.PubKey().Address())
			slg.SigningInfos = append(slg.SigningInfos, slashingtypes.SigningInfo{Address: ca.String(),
				ValidatorSigningInfo: slashingtypes.NewValidatorSigningInfo(ca, cfg.H0, 0, time.Unix(0, 0).UTC(), false, 0)})
		}
		gs[slashingtypes.ModuleName] = enc.Marshaler.MustMarshalJSON(&slg)
	}
	if bonded.IsPositive() {
		bals = append(bals, banktypes.Balance{Address: authtypes.NewModuleAddress(stakingtypes.BondedPoolName).String(), Coins: sdk.NewCoins(sdk.NewCoin(Bond, bonded))})
	}
	gs[authtypes.ModuleName] = enc.Marshaler.MustMarshalJSON(authtypes.NewGenesisState(authtypes.DefaultParams(), accs))
	total := sdk.NewCoins()
	for _, b := range bals {
		total = total.Add(b.Coins...)
	}
	gs[banktypes.ModuleName] = enc.Marshaler.MustMarshalJSON(banktypes.NewGenesisState(banktypes.DefaultGenesisState().Params, bals, total, nil))
	patchDefaultGenesis(c, enc, gs)
	if cfg.Patch != nil {
		cfg.Patch(enc, gs)
	}
	bz, err := json.Marshal(gs)
	if err != nil {
		panic(err)
	}
	c.Genesis = bz
	c.Height = cfg.H0
	c.Time = cfg.T0
	a.InitChain(abci.RequestInitChain{ChainId: ChainID, Time: cfg.T0, ConsensusParams: consensusParams(), AppStateBytes: bz, InitialHeight: cfg.H0})
	a.Commit()
	// InitChain+Commit commit version H0; the first generated block is H0+1.
	c.Height = cfg.H0
	return c
}

// NewChainFromGenesis starts a fresh app from a complete exported app state.
func NewChainFromGenesis(tmpl *Chain, appState []byte, h0 int64, t0 time.Time, out *Recorder) *Chain {
	SetupConfig()
	enc := app.MakeEncodingConfig()
	db := dbm.NewMemDB()
	a := newApp(db, enc)
	c := &Chain{App: a, Enc: enc, Cfg: tmpl.Cfg, Accts: append([]Acct{}, tmpl.Accts...), ByName: map[string]int{}, Rng: rand.New(rand.NewSource(tmpl.Cfg.Seed)), Out: out, DB: db, ValPriv: tmpl.ValPriv}
	for i, ac := range c.Accts {
		c.ByName[ac.Name] = i
	}
	c.Genesis = appState
	c.Time = t0
	a.InitChain(abci.RequestInitChain{ChainId: ChainID, Time: t0, ConsensusParams: consensusParams(), AppStateBytes: appState, InitialHeight: h0})
	a.Commit()
	c.Height = h0
	return c
}

// AddAcct registers a fresh key (not funded).
func (c *Chain) AddAcct(name string) int {
	ac := NewAcct(name)
	c.Accts = append(c.Accts, ac)
	c.ByName[name] = len(c.Accts) - 1
	return len(c.Accts) - 1
}

type PanicInfo struct {
	Value string
	Site  string
	Stack string
}

func topFrames(stack string) string {
	// pick the first frame inside certikfoundation/shentu that is not the harness
	lines := strings.Split(stack, "\n")
	for i := 0; i+1 < len(lines); i++ {
		l := lines[i]
		if strings.Contains(l, "certikfoundation/shentu/") && !strings.HasPrefix(l, "\t") {
			fn := l
			if j := strings.LastIndex(fn, "("); j > 0 {
				fn = fn[:j]
			}
			fn = strings.TrimPrefix(fn, "github.com/certikfoundation/shentu/")
			return fn
		}
	}
	return "unknown"
}

func catch(f func()) (pi *PanicInfo) {
	defer func() {
		if r := recover(); r != nil {
			st := string(debug.Stack())
			pi = &PanicInfo{Value: fmt.Sprint(r), Site: topFrames(st), Stack: st}
		}
	}()
	f()
	return nil
}

// Begin starts the next block dt after the previous one.
func (c *Chain) Begin(dt time.Duration) *PanicInfo {
	if c.InBlock {
		panic("Begin inside block")
	}
	c.Height++
	c.Time = c.Time.Add(dt)
	c.Blocks = append(c.Blocks, &BlockRec{Height: c.Height, Time: c.Time})
	req := abci.RequestBeginBlock{Header: c.Header()}
	if c.Cfg.Votes {
		req.LastCommitInfo = c.lastCommit()
	}
	c.Blocks[len(c.Blocks)-1].Commit = req.LastCommitInfo
	if len(c.PendingEvidence) > 0 {
		req.ByzantineValidators = c.PendingEvidence
		c.Blocks[len(c.Blocks)-1].Evidence = c.PendingEvidence
		c.PendingEvidence = nil
	}
	pi := catch(func() {
		c.App.BeginBlock(req)
	})
	c.InBlock = true
	if pi != nil {
		c.Halted = "begin:" + pi.Site
	}
	if c.Out != nil {
		c.Out.Block(c, "begin", nil, pi, nil)
	}
	return pi
}

// End finishes the block and commits.
func (c *Chain) End() (abci.ResponseEndBlock, *PanicInfo) {
	var res abci.ResponseEndBlock
	pi := catch(func() {
		res = c.App.EndBlock(abci.RequestEndBlock{Height: c.Height})
	})
	if pi != nil {
		c.Halted = "end:" + pi.Site
		if c.Out != nil {
			c.Out.Block(c, "end", &res, pi, nil)
		}
		return res, pi
	}
	if c.Out != nil {
		c.Out.snapshot(c) // observe before Commit through the deliver state
	}
	cr := c.App.Commit()
	c.InBlock = false
	if n := len(c.Blocks); n > 0 {
		c.Blocks[n-1].AppHash = cr.Data
		c.Blocks[n-1].Updates = RenderUpdates(res.ValidatorUpdates)
	}
	if c.Out != nil {
		c.Out.Block(c, "end", &res, nil, cr.Data)
	}
	return res, nil
}

// TxResult is what the sender sees.
type TxResult struct {
	Code      uint32
	Codespace string
	Log       string
	GasWanted int64
	GasUsed   int64
	Data      []byte
	Events    []abci.Event
}

func (c *Chain) acctNumSeq(addr sdk.AccAddress) (uint64, uint64) {
	acc := c.App.VerifAccountKeeper().GetAccount(c.Ctx(), addr)
	if acc == nil {
		return 0, 0
	}
	return acc.GetAccountNumber(), acc.GetSequence()
}

// Deliver signs msgs with the given account and runs DeliverTx.
func (c *Chain) Deliver(signer int, gas uint64, fee int64, msgs ...sdk.Msg) TxResult {
	ac := c.Accts[signer]
	num, seq := c.acctNumSeq(ac.Addr)
	fees := sdk.NewCoins()
	if fee > 0 {
		fees = sdk.NewCoins(sdk.NewInt64Coin(Bond, fee))
	}
	tx, err := helpers.GenTx(c.Enc.TxConfig, msgs, fees, gas, ChainID, []uint64{num}, []uint64{seq}, ac.Priv)
	if err != nil {
		return TxResult{Code: 99999, Codespace: "harness", Log: err.Error()}
	}
	txb, err := c.Enc.TxConfig.TxEncoder()(tx)
	if err != nil {
		return TxResult{Code: 99998, Codespace: "harness", Log: err.Error()}
	}
	r := c.App.DeliverTx(abci.RequestDeliverTx{Tx: txb})
	tr := TxResult{Code: r.Code, Codespace: r.Codespace, Log: r.Log, GasWanted: r.GasWanted, GasUsed: r.GasUsed, Data: r.Data, Events: r.Events}
	if n := len(c.Blocks); n > 0 {
		c.Blocks[n-1].Txs = append(c.Blocks[n-1].Txs, txb)
		c.Blocks[n-1].Results = append(c.Blocks[n-1].Results, tr)
	}
	return tr
}

// lastCommit: every bonded validator signed the previous block, except those the generator keeps offline.
func (c *Chain) lastCommit() abci.LastCommitInfo {
	var votes []abci.VoteInfo
	ctx := c.App.BaseApp.NewContext(true, c.Header())
	for _, v := range c.App.VerifStakingKeeper().GetBondedValidatorsByPower(ctx) {
		ca, err := v.GetConsAddr()
		if err != nil {
			continue
		}
		votes = append(votes, abci.VoteInfo{Validator: abci.Validator{Address: ca, Power: v.ConsensusPower()}, SignedLastBlock: !c.Offline[Hex(v.GetOperator())]})
	}
	return abci.LastCommitInfo{Votes: votes}
}

// quietGap is the block-time gap of the quiet blocks appended by the export profile: long enough for every period to pass.
func (c *Chain) quietGap() time.Duration { return 400 * time.Second }

// Hex is the canonical address form in traces.
func Hex(a []byte) string { return hex.EncodeToString(a) }

func SortedKeys(m map[string]interface{}) []string {
	var ks []string
	for k := range m {
		ks = append(ks, k)
	}
	sort.Strings(ks)
	return ks
}

// DoubleSign queues evidence that validator v signed two blocks at the previous height: the next BeginBlock slashes it by the
// double-sign fraction, jails and tombstones it.
func (c *Chain) DoubleSign(v int) {
	val, found := c.App.VerifStakingKeeper().GetValidator(c.Ctx(), sdk.ValAddress(c.Accts[v].Addr))
	if !found || v >= len(c.ValPriv) {
		return
	}
	ca := c.ValPriv[v].PubKey().Address()
	c.PendingEvidence = append(c.PendingEvidence, abci.Evidence{Type: abci.EvidenceType_DUPLICATE_VOTE,
		Validator: abci.Validator{Address: ca, Power: val.ConsensusPower()}, Height: c.Height, Time: c.Time, TotalVotingPower: 0})
	if c.Out != nil {
		c.Out.Note(D{"k": "note", "double_sign": Hex(c.Accts[v].Addr), "h": c.Height})
	}
}
