package sim

import (
	"encoding/binary"
	"encoding/hex"
	"fmt"
	"math/big"
	"math/rand"

	"github.com/hyperledger/burrow/crypto"
	"github.com/hyperledger/burrow/txs"
)

// Profile "create", first half: a factory contract that deploys a child with CREATE and reports what it saw.  The
// specification of these programs is written down by construction, independently of the Lean interpreter model: the
// generator knows the init code, hence what the EVM does with it, and emits the facts that must hold (`expect`); the driver
// compares them with what the real interpreter did — and, like every other case, runs the interpreter model (which now
// contains CREATE / CREATE2) on the same program.  The second half of the profile is vm_gen_create2.go.
//
// factory:  [mem <- init code] [optional CALL of a child that returns 32 bytes] CREATE(value, 0, len)
//           mem[0x40] <- result of CREATE ; mem[0x60] <- RETURNDATASIZE ; return mem[0x40..0x80)

// DerivedAddress is the address CREATE gives the n-th contract created in one execution (vm/contract.go: the nonce is the
// transaction hash option, empty here, followed by the sequence number).
func DerivedAddress(creator crypto.Address, seq uint64) crypto.Address {
	return DerivedAddressN(creator, nil, seq)
}

// DerivedAddressN: the same with the CVM's nonce option (vm/contract.go copies it into the first 32 bytes).
func DerivedAddressN(creator crypto.Address, txNonce []byte, seq uint64) crypto.Address {
	nonce := make([]byte, txs.HashLength+8)
	copy(nonce, txNonce)
	binary.BigEndian.PutUint64(nonce[txs.HashLength:], seq)
	return crypto.NewContractAddress(creator, nonce)
}

var createFactory = crypto.Address{0xfa, 0xc7, 0x00, 0x00, 0x00, 0x00, 0x00, 0x00, 0x00, 0x00, 0x00, 0x00, 0x00, 0x00, 0x00, 0x00, 0x00, 0x00, 0x00, 0x02}
var createChild = crypto.Address{0xc1, 0x1d, 0x00, 0x00, 0x00, 0x00, 0x00, 0x00, 0x00, 0x00, 0x00, 0x00, 0x00, 0x00, 0x00, 0x00, 0x00, 0x00, 0x00, 0x01}

func GenCreateFactory(id int64) *VMCase {
	r := rand.New(rand.NewSource(id*7919 + 13))
	c := baseCase(id, "create", r)
	type initKind struct {
		name    string
		code    []byte
		ok      bool
		runtime string // hex of the deployed code when ok
		retLen  int    // RETURNDATASIZE after a failed creation (the revert data)
	}
	kinds := []initKind{
		// runtime "00" (STOP): CODECOPY(0, 12, 1); RETURN(0, 1); 00
		{"ok", []byte{0x60, 0x01, 0x60, 0x0c, 0x60, 0x00, 0x39, 0x60, 0x01, 0x60, 0x00, 0xf3, 0x00}, true, "00", 0},
		// runtime "6001600055" would be longer; a second successful shape: empty runtime (RETURN(0,0))
		{"okEmpty", []byte{0x60, 0x00, 0x60, 0x00, 0xf3}, true, "", 0},
		// SSTORE(0,1); REVERT(0,0)
		{"revert", []byte{0x60, 0x01, 0x60, 0x00, 0x55, 0x60, 0x00, 0x60, 0x00, 0xfd}, false, "", 0},
		// MSTORE(0, 0xabcd); REVERT(28, 4): four bytes of revert data
		{"revertData", []byte{0x61, 0xab, 0xcd, 0x60, 0x00, 0x52, 0x60, 0x04, 0x60, 0x1c, 0xfd}, false, "", 4},
		// SSTORE(0,1); INVALID
		{"invalid", []byte{0x60, 0x01, 0x60, 0x00, 0x55, 0xfe}, false, "", 0},
	}
	// ORIGIN -> slot 1, CALLER -> slot 2, then runtime "00": what the constructor sees of the call context
	kinds = append(kinds, initKind{"okCtx", []byte{0x32, 0x60, 0x01, 0x55, 0x33, 0x60, 0x02, 0x55,
		0x60, 0x01, 0x60, 0x14, 0x60, 0x00, 0x39, 0x60, 0x01, 0x60, 0x00, 0xf3, 0x00}, true, "00", 0})
	k := kinds[r.Intn(len(kinds))]
	if r.Intn(3) == 0 {
		k = kinds[len(kinds)-1]
	}
	// nested: the transaction calls an outer contract, which calls the factory (the factory's caller is not the origin)
	nested := r.Intn(2) == 0
	callFirst := r.Intn(2) == 0
	value := []uint64{0, 0, 5, 100}[r.Intn(4)]
	c.CalleeBal = 100
	c.Value = 0
	c.Gas = 2000000
	a := newAsm()
	n := len(k.code)
	tail := a.newLabel()
	if callFirst {
		// CALL(gas 0xffff, child, value 0, args 0/0, ret 0/0); POP
		a.pushU(0)
		a.pushU(0)
		a.pushU(0)
		a.pushU(0)
		a.pushU(0)
		a.pushN(20, new(big.Int).SetBytes(createChild.Bytes()))
		a.pushU(0xffff)
		a.op(0xf1, 0x50)
	}
	// CODECOPY(destOffset 0, offset <tail>, size n)
	a.pushU(uint64(n))
	a.pushLabel(tail)
	a.pushU(0)
	a.op(0x39)
	a.pushU(uint64(n))
	a.pushU(0)
	a.pushU(value)
	a.op(0xf0)       // CREATE
	a.pushU(0x40)
	a.op(0x52)       // MSTORE
	a.op(0x3d)       // RETURNDATASIZE
	a.pushU(0x60)
	a.op(0x52)
	a.pushU(0x40)
	a.pushU(0x40)
	a.op(0xf3)
	a.labels[tail] = len(a.code) // the init code follows the factory's own code
	a.op(k.code...)
	c.Code = a.bytes()
	factoryAddr := VMCallee
	if nested {
		factoryAddr = createFactory
		c.Extra = append(c.Extra, VMAccount{Addr: createFactory, Code: c.Code, Balance: 100})
		c.CalleeBal = 0
		// outer: CALL(gas, factory, 0, 0, 0, ret 0, 0x40); POP; RETURN(0, 0x40)
		o := newAsm()
		o.pushU(0x40)
		o.pushU(0)
		o.pushU(0)
		o.pushU(0)
		o.pushU(0)
		o.pushN(20, new(big.Int).SetBytes(createFactory.Bytes()))
		o.op(0x5a) // GAS
		o.op(0xf1, 0x50)
		o.pushU(0x40)
		o.pushU(0)
		o.op(0xf3)
		c.Code = o.bytes()
	}
	if callFirst {
		// child: MSTORE(0, 0xff..ff); RETURN(0, 32)
		child := append([]byte{0x7f}, make([]byte, 32)...)
		for i := 1; i <= 32; i++ {
			child[i] = 0xff
		}
		child = append(child, 0x60, 0x00, 0x52, 0x60, 0x20, 0x60, 0x00, 0xf3)
		c.Extra = append(c.Extra, VMAccount{Addr: createChild, Code: child})
	}
	derived := DerivedAddress(factoryAddr, 1)
	c.Note = fmt.Sprintf("create:%s call=%v value=%d nested=%v", k.name, callFirst, value, nested)
	c.UsesExt = true
	created := k.ok
	rds := 0
	if !k.ok {
		rds = k.retLen
	}
	storage := "[]"
	if k.name == "okCtx" {
		// the constructor runs as the new contract: ORIGIN is the account that sent the transaction, CALLER the factory
		storage = fmt.Sprintf(`[["%064x","%064x"],["%064x","%064x"]]`, 1, new(big.Int).SetBytes(VMCaller.Bytes()), 2, new(big.Int).SetBytes(factoryAddr.Bytes()))
	}
	c.Expect = fmt.Sprintf(`{"derived":"%s","created":%v,"runtime":"%s","value":%d,"factory_balance":%d,"returndatasize":%d,"init":"%s","call_first":%v,"factory":"%s","nested":%v,"storage":%s}`,
		hex.EncodeToString(derived.Bytes()), created, k.runtime, value, map[bool]uint64{true: 100 - value, false: 100}[created], rds, k.name, callFirst,
		hex.EncodeToString(factoryAddr.Bytes()), nested, storage)
	return c
}

