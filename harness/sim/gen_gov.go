package sim

import (
	"strings"
	"encoding/base64"
	"fmt"
	cvmtypes "github.com/certikfoundation/shentu/x/cvm/types"
	authtypes "github.com/cosmos/cosmos-sdk/x/auth/types"
	banktypes "github.com/cosmos/cosmos-sdk/x/bank/types"
	"time"

	"github.com/cosmos/cosmos-sdk/crypto/keys/ed25519"
	sdk "github.com/cosmos/cosmos-sdk/types"
	sdkgovtypes "github.com/cosmos/cosmos-sdk/x/gov/types"
	stakingtypes "github.com/cosmos/cosmos-sdk/x/staking/types"
	upgradetypes "github.com/cosmos/cosmos-sdk/x/upgrade/types"

	"github.com/certikfoundation/shentu/app"
	appparams "github.com/certikfoundation/shentu/app/params"
	certtypes "github.com/certikfoundation/shentu/x/cert/types"
	govtypes "github.com/certikfoundation/shentu/x/gov/types"
)

// GovSetup patches short governance periods into genesis.
func GovSetup(rng interface{ Intn(int) int }, depositPeriod, votingPeriod time.Duration, minInit, minDep int64) func(enc appparams.EncodingConfig, gs app.GenesisState) {
	return func(enc appparams.EncodingConfig, gs app.GenesisState) {
		var gg govtypes.GenesisState
		enc.Marshaler.MustUnmarshalJSON(gs[sdkgovtypes.ModuleName], &gg)
		gg.DepositParams.MaxDepositPeriod = depositPeriod
		gg.DepositParams.MinInitialDeposit = sdk.NewCoins(sdk.NewInt64Coin(Bond, minInit))
		if minInit == 0 {
			gg.DepositParams.MinInitialDeposit = sdk.Coins{sdk.NewInt64Coin(Bond, 0)}
		}
		gg.DepositParams.MinDeposit = sdk.NewCoins(sdk.NewInt64Coin(Bond, minDep))
		gg.VotingParams.VotingPeriod = votingPeriod
		gs[sdkgovtypes.ModuleName] = enc.Marshaler.MustMarshalJSON(&gg)
	}
}

var voteOpts = []sdkgovtypes.VoteOption{sdkgovtypes.OptionYes, sdkgovtypes.OptionYes, sdkgovtypes.OptionNo, sdkgovtypes.OptionAbstain, sdkgovtypes.OptionNoWithVeto}

// SubmitProposal delivers a MsgSubmitProposal and records it with a model-readable description.
func (c *Chain) SubmitProposal(signer int, content sdkgovtypes.Content, desc D, deposit sdk.Coins) TxResult {
	msg, err := sdkgovtypes.NewMsgSubmitProposal(content, deposit, c.Accts[signer].Addr)
	if err != nil {
		panic(err)
	}
	d := D{"t": "gov.submit", "proposer": Hex(c.Accts[signer].Addr), "deposit": CoinsJ(deposit)}
	for k, v := range desc {
		d[k] = v
	}
	return c.Do(signer, []D{d}, msg)
}

func (c *Chain) Vote(signer int, pid uint64, opt sdkgovtypes.VoteOption) TxResult {
	return c.Do(signer, []D{{"t": "gov.vote", "pid": pid, "voter": Hex(c.Accts[signer].Addr), "option": int(opt)}},
		sdkgovtypes.NewMsgVote(c.Accts[signer].Addr, pid, opt))
}

func (c *Chain) GovDeposit(signer int, pid uint64, amt sdk.Coins) TxResult {
	return c.Do(signer, []D{{"t": "gov.deposit", "pid": pid, "depositor": Hex(c.Accts[signer].Addr), "amt": CoinsJ(amt)}},
		sdkgovtypes.NewMsgDeposit(c.Accts[signer].Addr, pid, amt))
}

// GovProfile generates histories for C11/C12/C13: proposals of several kinds by council members and
// ordinary accounts, deposits, votes by certifiers / validators / delegators around the period ends,
// certificates issued and revoked by certifiers, former certifiers and strangers.
func GovProfile(seed int64, out *Recorder, nOps int) *Chain {
	rng := newRng(seed)
	depositPeriod := time.Duration(10+rng.Intn(15)) * time.Second
	votingPeriod := time.Duration(6+rng.Intn(8)) * time.Second
	minInit := []int64{0, 100, 1000}[rng.Intn(3)]
	minDep := []int64{5000, 20000}[rng.Intn(2)]
	nVal := 2 + rng.Intn(2)
	nCert := 1 + rng.Intn(3)
	stakes := [][]int64{{1000000000, 1000000000, 1000000000}, {3000000000, 1000000000, 500000000}, {1000000000, 2000000000, 1000000001}}[rng.Intn(3)]
	cfg := GenCfg{Seed: seed, H0: 10, T0: time.Unix(1600000000, 0).UTC(), NAcc: 10, NVal: nVal, NCert: nCert, AdminIdx: 9,
		ExtraDenom: []string{"zzz"}, Balance: 1000000000000, ValStake: stakes,
		Patch: GovSetup(rng, depositPeriod, votingPeriod, minInit, minDep)}
	c := NewChain(cfg, out)
	c.Rng = rng
	out.Genesis(c, D{"profile": "gov"})
	if !c.Advance(2 * time.Second) {
		return c
	}
	aliases := []string{"", "alpha", "beta", "cert0", "gamma"}
	lastAddAlias := ""
	var lastAddTarget sdk.AccAddress
	certKinds := []string{"identity", "general", "auditing", "proof", "compilation", "oracleoperator", "shieldpoolcreator"}
	// A scripted opening in every fourth history (chosen by the seed alone, no draw from the main stream): an account outside the
	// council proposes the SAME addition to the council twice, each with a full deposit; every certifier approves both, so both are
	// decided early in one end-blocker — the first passes, the second's handler fails although it was valid when submitted.  What
	// becomes of the second proposal's deposits is C11's "fails" clause on a path (early decision in the certifier round) that the
	// random part reaches rarely.
	if seed%4 == 1 {
		ctx := c.Ctx()
		ck := c.App.VerifCertKeeper()
		stk := c.App.VerifStakingKeeper()
		proposer, target := -1, -1
		for k := cfg.NAcc - 1; k >= 0; k-- {
			a := c.Accts[k].Addr
			if _, isVal := stk.GetValidator(ctx, sdk.ValAddress(a)); isVal || ck.IsCertifier(ctx, a) {
				continue
			}
			if proposer < 0 {
				proposer = k
			} else if target < 0 {
				target = k
			}
		}
		if proposer >= 0 && target >= 0 {
			before := len(c.App.VerifGovKeeper().GetProposals(ctx))
			for k := 0; k < 2; k++ {
				content := certtypes.NewCertifierUpdateProposal("t", "d", c.Accts[target].Addr, "", c.Accts[proposer].Addr, certtypes.Add)
				c.SubmitProposal(proposer, content, D{"kind": "certifierUpdate", "certifier": Hex(c.Accts[target].Addr), "alias": "", "add": true, "contentProposer": Hex(c.Accts[proposer].Addr)}, c.Coins(minDep, Bond))
			}
			ps := c.App.VerifGovKeeper().GetProposals(c.Ctx())
			for _, cf := range ck.GetAllCertifiers(c.Ctx()) {
				ca, _ := sdk.AccAddressFromBech32(cf.Address)
				if ci := c.idxOf(ca, -1); ci >= 0 {
					for k := before; k < len(ps); k++ {
						c.Vote(ci, ps[k].ProposalId, sdkgovtypes.OptionYes)
					}
				}
			}
			if !c.Advance(time.Second) {
				return c
			}
		}
	}
	for i := 0; i < nOps && c.Halted == ""; i++ {
		// once in a while somebody tries to pay coins into the module's account through the VM (a call carrying value): the
		// bank refuses plain sends to module accounts, and the books of this module rely on it (own random stream)
		if r3 := newRng(seed*131 + int64(i)); r3.Intn(40) == 0 {
			from := r3.Intn(cfg.NAcc)
			ma := authtypes.NewModuleAddress("gov")
			value := uint64(1 + r3.Intn(5000))
			if r3.Intn(2) == 0 { // … or by a plain bank send, which the bank refuses (blocked recipient)
				c.Do(from, []D{{"t": "bank.send", "from": Hex(c.Accts[from].Addr), "to": Hex(ma), "amt": CoinsJ(c.Coins(int64(value), Bond)), "toKind": ""}},
					banktypes.NewMsgSend(c.Accts[from].Addr, ma, c.Coins(int64(value), Bond)))
			} else {
				m := cvmtypes.NewMsgCall(c.Accts[from].Addr.String(), ma.String(), value, nil)
				c.DoGas(from, 3000000, DefaultFee, []D{{"t": "cvm.call", "caller": Hex(c.Accts[from].Addr), "callee": Hex(ma), "kind": "none", "value": value, "data": "", "expect": "any"}}, nil, &m)
			}
		}
		ctx := c.Ctx()
		gk := c.App.VerifGovKeeper()
		props := gk.GetProposals(ctx)
		who := rng.Intn(cfg.NAcc)
		ac := c.Accts[who]
		r := rng.Intn(100)
		switch {
		case r < 22:
			dts := []time.Duration{time.Second, 2 * time.Second, 3 * time.Second, 5 * time.Second, votingPeriod, votingPeriod - time.Second, votingPeriod + time.Second, depositPeriod, depositPeriod + time.Second}
			if !c.Advance(dts[rng.Intn(len(dts))]) {
				return c
			}
		case r < 38: // submit
			dep := c.Coins([]int64{0, 1, 99, 100, 1000, 4999, 5000, 20000, 25000}[rng.Intn(9)], Bond)
			if rng.Intn(10) == 0 {
				dep = dep.Add(sdk.NewInt64Coin("zzz", 1+rng.Int63n(100)))
			}
			if dep.AmountOf(Bond).IsZero() && rng.Intn(2) == 0 {
				dep = sdk.NewCoins()
			}
			switch k := rng.Intn(10); {
			case k < 3:
				c.SubmitProposal(who, sdkgovtypes.NewTextProposal("t", "d"), D{"kind": "text"}, dep)
			case k < 7: // certifier update
				target := c.Accts[rng.Intn(cfg.NAcc)].Addr
				alias := aliases[rng.Intn(len(aliases))]
				// aliases that differ from an existing one only by surrounding blanks or case: different aliases to the module,
				// which must then keep them apart everywhere (own random stream)
				if alias != "" {
					switch newRng(seed*31 + int64(i)).Intn(8) {
					case 0:
						alias = alias + " "
					case 1:
						alias = " " + alias
					case 2:
						alias = strings.ToUpper(alias[:1]) + alias[1:]
					}
				}
				add := rng.Intn(3) > 0
				if !add { // mostly target an existing certifier
					cs := c.App.VerifCertKeeper().GetAllCertifiers(ctx)
					if len(cs) > 0 && rng.Intn(5) > 0 {
						target, _ = sdk.AccAddressFromBech32(cs[rng.Intn(len(cs))].Address)
					}
				}
				aor := certtypes.Add
				if !add {
					aor = certtypes.Remove
				}
				// own random stream for the round-6 variations, so that the histories drawn from the main stream stay what they were
				r6 := newRng(seed*131 + int64(i)*7 + 3)
				// two additions under the SAME alias pending at once: whichever is executed second must be refused then
				if add && lastAddAlias != "" && r6.Intn(3) == 0 {
					alias = lastAddAlias
				}
				if add && alias != "" {
					lastAddAlias = alias
				}
				// two additions of the SAME account pending at once: the one executed second fails in its handler although it was
				// valid when submitted (what happens to its deposits then is C11's matter)
				if add && lastAddTarget != nil && r6.Intn(3) == 0 {
					target = lastAddTarget
				}
				if add {
					lastAddTarget = target
				}
				content := certtypes.NewCertifierUpdateProposal("t", "d", target, alias, ac.Addr, aor)
				// bech32 may be written in upper case: the same address, another string
				if r6.Intn(4) == 0 {
					content.Certifier = strings.ToUpper(content.Certifier)
				}
				c.SubmitProposal(who, content, D{"kind": "certifierUpdate", "certifier": Hex(target), "alias": alias, "add": add, "contentProposer": Hex(ac.Addr)}, dep)
			case k < 9:
				plan := upgradetypes.Plan{Name: fmt.Sprintf("u%d", i), Height: 1000000000 + int64(i), Info: "x"}
				c.SubmitProposal(who, upgradetypes.NewSoftwareUpgradeProposal("t", "d", plan), D{"kind": "upgrade"}, dep)
			default:
				// a text proposal by a council member with a deposit it will not pay
				c.SubmitProposal(who, sdkgovtypes.NewTextProposal("t2", "d"), D{"kind": "text"}, dep)
			}
		case r < 50: // deposit
			pid := uint64(1 + rng.Intn(len(props)+2))
			if len(props) > 0 && rng.Intn(6) > 0 {
				pid = props[rng.Intn(len(props))].ProposalId
			}
			amt := c.Coins([]int64{1, 100, 1000, 4999, 5000, 5001, 20000}[rng.Intn(7)], Bond)
			if rng.Intn(12) == 0 {
				amt = amt.Add(sdk.NewInt64Coin("zzz", 1+rng.Int63n(100)))
			}
			c.GovDeposit(who, pid, amt)
		case r < 80: // votes: a burst by several voters
			pid := uint64(1 + rng.Intn(len(props)+2))
			var voting []uint64
			for _, p := range props {
				if p.Status == govtypes.StatusCertifierVotingPeriod || p.Status == govtypes.StatusValidatorVotingPeriod {
					voting = append(voting, p.ProposalId)
				}
			}
			if len(voting) > 0 && rng.Intn(8) > 0 {
				pid = voting[rng.Intn(len(voting))]
			}
			n := 1 + rng.Intn(5)
			bias := rng.Intn(5) // 0 random, 1-2 mostly yes, 3 mostly no, 4 mostly veto
			for j := 0; j < n; j++ {
				v := rng.Intn(cfg.NAcc)
				if rng.Intn(3) > 0 { // council members carry the votes that count
					v = rng.Intn(cfg.NVal + cfg.NCert)
				}
				opt := voteOpts[rng.Intn(len(voteOpts))]
				if (bias == 1 || bias == 2) && rng.Intn(5) > 0 {
					opt = sdkgovtypes.OptionYes
				} else if bias == 3 && rng.Intn(3) > 0 {
					opt = sdkgovtypes.OptionNo
				} else if bias == 4 && rng.Intn(3) > 0 {
					opt = sdkgovtypes.OptionNoWithVeto
				}
				if rng.Intn(40) == 0 {
					opt = sdkgovtypes.VoteOption(7)
				}
				c.Vote(v, pid, opt)
			}
		case r < 88: // certificates
			kind := certKinds[rng.Intn(len(certKinds))]
			content := []string{Hex(c.Accts[rng.Intn(cfg.NAcc)].Addr), "sourcehash", "x"}[rng.Intn(3)]
			if kind == "identity" {
				content = c.Accts[rng.Intn(cfg.NAcc)].Addr.String()
			}
			signer := who
			cs := c.App.VerifCertKeeper().GetAllCertifiers(ctx)
			if len(cs) > 0 && rng.Intn(3) > 0 {
				a, _ := sdk.AccAddressFromBech32(cs[rng.Intn(len(cs))].Address)
				signer = c.idxOf(a, who)
			}
			msg := certtypes.NewMsgIssueCertificate(certtypes.AssembleContent(kind, content), "comp", "hash", "desc", c.Accts[signer].Addr)
			c.Do(signer, []D{{"t": "cert.issue", "kind": kind, "content": canonStr(content), "certifier": Hex(c.Accts[signer].Addr)}}, msg)
		case r < 92:
			certs := c.App.VerifCertKeeper().GetAllCertificates(ctx)
			id := uint64(rng.Intn(5))
			if len(certs) > 0 && rng.Intn(5) > 0 {
				id = certs[rng.Intn(len(certs))].CertificateId
			}
			// the certificate issued last (the highest id): after it is revoked the id counter is ahead of every stored certificate
			if len(certs) > 0 && newRng(seed*137+int64(i)*11+5).Intn(3) > 0 {
				id = 0
				for _, ct := range certs {
					if ct.CertificateId > id {
						id = ct.CertificateId
					}
				}
			}
			signer := who
			cs := c.App.VerifCertKeeper().GetAllCertifiers(ctx)
			if len(cs) > 0 && rng.Intn(3) > 0 {
				a, _ := sdk.AccAddressFromBech32(cs[rng.Intn(len(cs))].Address)
				signer = c.idxOf(a, who)
			}
			// the issuer of a certificate revokes it itself — also when it has left the council since (own random stream)
			if r7 := newRng(seed*139 + int64(i)*13 + 7); len(certs) > 0 && r7.Intn(4) == 0 {
				ct := certs[r7.Intn(len(certs))]
				if ia, err := sdk.AccAddressFromBech32(ct.Certifier); err == nil {
					if ii := c.idxOf(ia, -1); ii >= 0 {
						id, signer = ct.CertificateId, ii
					}
				}
			}
			c.Do(signer, []D{{"t": "cert.revoke", "id": id, "revoker": Hex(c.Accts[signer].Addr)}},
				certtypes.NewMsgRevokeCertificate(c.Accts[signer].Addr, id, "why"))
		case r < 95:
			pk := ed25519.GenPrivKeyFromSecret([]byte(fmt.Sprintf("plat%d", rng.Intn(4)))).PubKey()
			signer := who
			cs := c.App.VerifCertKeeper().GetAllCertifiers(ctx)
			if len(cs) > 0 && rng.Intn(2) > 0 {
				a, _ := sdk.AccAddressFromBech32(cs[rng.Intn(len(cs))].Address)
				signer = c.idxOf(a, who)
			}
			msg, err := certtypes.NewMsgCertifyPlatform(c.Accts[signer].Addr, pk, fmt.Sprintf("p%d", rng.Intn(3)))
			if err != nil {
				panic(err)
			}
			c.Do(signer, []D{{"t": "cert.platform", "certifier": Hex(c.Accts[signer].Addr), "pubkey64": base64.StdEncoding.EncodeToString(pk.Bytes()), "platform": msg.Platform}}, msg)
		default: // delegations so that delegators carry voting power
			v := rng.Intn(cfg.NVal)
			amt := []int64{1000000, 500000000, 2000000000}[rng.Intn(3)]
			c.Do(who, []D{{"t": "staking.delegate", "del": Hex(ac.Addr), "val": Hex(c.Accts[v].Addr), "amt": amt}},
				stakingtypes.NewMsgDelegate(ac.Addr, sdk.ValAddress(c.Accts[v].Addr), sdk.NewInt64Coin(Bond, amt)))
		}
	}
	// drain: let every proposal reach its end
	for i := 0; i < 6 && c.Halted == ""; i++ {
		if !c.Advance(depositPeriod) {
			break
		}
	}
	if c.Halted == "" && c.InBlock {
		c.End()
	}
	return c
}

// canonStr applies the same address canonicalisation as the observations do.
func canonStr(s string) string {
	if v, ok := canon(s).(string); ok {
		return v
	}
	return s
}
