package sim

// Profile "calls": a main contract that calls / inspects generated child contracts
// (CALL, CALLCODE, DELEGATECALL, STATICCALL, BALANCE, EXTCODE*, SELFDESTRUCT; nesting up to three levels).

import (
	"math/big"
	"math/rand"

	"github.com/hyperledger/burrow/binary"
	"github.com/hyperledger/burrow/crypto"
	"github.com/hyperledger/burrow/execution/engine"
)

var vmChildAddr = []crypto.Address{engine.AddressFromName("verif-child-0"), engine.AddressFromName("verif-child-1"),
	engine.AddressFromName("verif-child-2"), engine.AddressFromName("verif-child-3")}
var vmNobody = engine.AddressFromName("verif-nobody")

func addrWord(a crypto.Address) *big.Int { return new(big.Int).SetBytes(a.Bytes()) }

// callBlock emits one call of the given opcode and records what came back at mem[out .. out+0x80)
func callBlock(a *vmAsm, r *rand.Rand, op byte, target *big.Int, out uint64) {
	retSize := []uint64{0, 32, 64, 8, 40, 96}[r.Intn(6)]
	a.pushU(retSize)
	a.pushU(out + 0x20) // return window
	inSize := []uint64{0, 4, 32, 64}[r.Intn(4)]
	a.pushU(inSize)
	a.pushU(uint64(32 * r.Intn(3))) // input from the scratch words at 0..0x60
	if op == 0xf1 || op == 0xf2 {
		switch r.Intn(12) {
		case 0, 1:
			a.pushU(uint64(1 + r.Intn(50)))
		case 2:
			a.pushU(uint64(900 + r.Intn(400))) // around the balances
		case 3:
			a.push([]*big.Int{pow2(63), bigAdd(pow2(63), -1), pow2(64), bigAdd(pow2(256), -1)}[r.Intn(4)])
		default:
			a.pushU(0)
		}
	}
	a.push(target)
	switch r.Intn(20) % 13 {
	case 0:
		a.pushU(uint64(r.Intn(2) * r.Intn(3000)))
	case 2, 3:
		a.pushU(uint64(20000 + r.Intn(200000)))
	case 4:
		a.push([]*big.Int{bigAdd(pow2(64), -1), pow2(64), bigAdd(pow2(256), -1), pow2(255)}[r.Intn(4)])
	case 5:
		a.op(0x5a) // GAS: everything
	default:
		a.pushU(uint64(30000 + r.Intn(30000)))
	}
	a.op(op)
	a.pushU(out) // success flag
	a.op(0x52)
	if r.Intn(2) == 0 { // RETURNDATASIZE and a slice of the return buffer
		a.op(0x3d)
		a.pushU(out + 0x80)
		a.op(0x52)
		n := []uint64{0, 1, 8, 32}[r.Intn(4)]
		if r.Intn(10) < 7 { // copy exactly what is there
			a.op(0x3d)
			a.pushU(0)
		} else {
			a.pushU(n)
			a.pushU(uint64([]int{0, 0, 1, 16, 33}[r.Intn(5)]))
		}
		a.pushU(out + 0xa0)
		a.op(0x3e)
	}
}

// childCode builds the program of child i; children may call child i+1
func childCode(r *rand.Rand, i int, kinds []int) []byte {
	a := newAsm()
	ret := func(n uint64) { a.pushU(n); a.pushU(0); a.op(0xf3) }
	switch kinds[i] {
	case 0: // return some words
		a.push(randWord(r))
		a.pushU(0)
		a.op(0x52)
		a.pushU(uint64(0x1000 + i))
		a.pushU(32)
		a.op(0x52)
		ret([]uint64{0, 1, 32, 40, 64}[r.Intn(5)])
	case 1: // revert with data
		a.push(randWord(r))
		a.pushU(0)
		a.op(0x52)
		a.pushU([]uint64{0, 4, 32}[r.Intn(3)])
		a.pushU(0)
		a.op(0xfd)
	case 2:
		a.op(0xfe)
	case 3: // burn all the gas
		a.op(0x5b, 0x60, 0x00, 0x56)
	case 4: // write storage, log, return the old value
		a.pushU(uint64(r.Intn(3)))
		a.op(0x54)
		a.pushU(0)
		a.op(0x52)
		a.push(randWord(r))
		a.pushU(uint64(r.Intn(3)))
		a.op(0x55)
		a.pushU(uint64(0xa0 + i))
		a.pushU(32)
		a.pushU(0)
		a.op(0xa1)
		ret(32)
	case 5: // nested call into the next child, hand its answer back
		if i+1 < len(kinds) {
			op := []byte{0xf1, 0xf1, 0xf2, 0xf4, 0xfa}[r.Intn(5)]
			a.pushU(uint64(0x33 + i))
			a.pushU(uint64(r.Intn(3)))
			a.op(0x55)
			callBlock(a, r, op, addrWord(vmChildAddr[i+1]), 0x100)
			if r.Intn(4) == 0 {
				a.pushU(0x21)
				a.pushU(0x20)
				a.pushU(0)
				a.op(0xa1)
			}
			a.pushU(0x100)
			a.pushU(0x100)
			a.op(0xf3)
		} else {
			ret(0)
		}
	case 6: // self-destruct
		tgt := []*big.Int{addrWord(VMCaller), addrWord(vmNobody), addrWord(vmChildAddr[0]), addrWord(VMCallee)}[r.Intn(4)]
		a.push(tgt)
		a.op(0xff)
	case 7: // report the call context
		for k, o := range []byte{0x33, 0x34, 0x30, 0x32, 0x36} {
			a.op(o)
			a.pushU(uint64(32 * k))
			a.op(0x52)
		}
		a.pushU(0)
		a.op(0x35)
		a.pushU(0xa0)
		a.op(0x52)
		ret(0xc0)
	case 8:
		a.op(0x01) // stack underflow
	case 9: // no code
	case 10: // write then revert
		a.push(randWord(r))
		a.pushU(1)
		a.op(0x55)
		a.pushU(1)
		a.pushU(0)
		a.pushU(0)
		a.op(0xa1)
		a.pushU(0)
		a.pushU(0)
		a.op(0xfd)
	default: // log only
		a.pushU(uint64(r.Intn(40)))
		a.pushU(0)
		a.op(0xa0)
		ret(0)
	}
	return a.bytes()
}

func GenCalls(id int64) *VMCase {
	r := newRng(id)
	c := baseCase(id, "calls", r)
	c.CalleeBal = []uint64{0, 1000, 1000, 5}[r.Intn(4)]
	n := 1 + r.Intn(4)
	kinds := make([]int, n)
	for i := range kinds {
		kinds[i] = []int{0, 0, 0, 1, 1, 4, 4, 4, 5, 5, 5, 5, 7, 7, 9, 10, 11, 2, 3, 6, 8}[r.Intn(21)]
	}
	for i := 0; i < n; i++ {
		x := VMAccount{Addr: vmChildAddr[i], Code: childCode(r, i, kinds), Balance: []uint64{0, 0, 7, 100}[r.Intn(4)]}
		if r.Intn(2) == 0 {
			x.Storage = append(x.Storage, [2]binary.Word256{word(big.NewInt(int64(r.Intn(3)))), word(randWord(r))})
		}
		c.Extra = append(c.Extra, x)
	}
	a := newAsm()
	// scratch input words
	for i := 0; i < 3; i++ {
		a.push(randWord(r))
		a.pushU(uint64(32 * i))
		a.op(0x52)
	}
	targets := []*big.Int{addrWord(vmNobody), addrWord(VMCaller), addrWord(VMCallee)}
	for i := 0; i < n; i++ {
		targets = append(targets, addrWord(vmChildAddr[i]), addrWord(vmChildAddr[i]), addrWord(vmChildAddr[i]))
	}
	pick := func() *big.Int {
		t := targets[r.Intn(len(targets))]
		if r.Intn(25) == 0 { // dirty upper bytes: only the low 160 bits name the account
			t = new(big.Int).Add(t, pow2(200))
		}
		return t
	}
	out := uint64(0x200)
	for k, m := 0, 1+r.Intn(4); k < m; k++ {
		switch r.Intn(10) {
		case 0: // BALANCE
			a.push(pick())
			a.op(0x31)
			a.pushU(out)
			a.op(0x52)
		case 1: // EXTCODESIZE, EXTCODEHASH
			a.push(pick())
			a.op([]byte{0x3b, 0x3f}[r.Intn(2)])
			a.pushU(out)
			a.op(0x52)
		case 2: // EXTCODECOPY
			a.pushU(uint64(r.Intn(40)))
			a.pushU(uint64(r.Intn(12)))
			a.pushU(out)
			a.push(pick())
			a.op(0x3c)
		case 3: // storage write between calls (must survive / be discarded with the frame)
			a.push(randWord(r))
			a.pushU(uint64(r.Intn(3)))
			a.op(0x55)
			a.pushU(uint64(0xee))
			a.pushU(0)
			a.pushU(0)
			a.op(0xa1)
		default:
			op := []byte{0xf1, 0xf1, 0xf1, 0xf2, 0xf4, 0xfa}[r.Intn(6)]
			callBlock(a, r, op, pick(), out)
		}
		out += 0x100
	}
	switch r.Intn(12) {
	case 0:
		a.pushU(0x20)
		a.pushU(0x200)
		a.op(0xfd)
	case 1:
		a.op(0xfe)
	case 2:
		a.push(pick())
		a.op(0xff)
	default:
		a.pushU(out - 0x200)
		a.pushU(0x200)
		a.op(0xf3)
	}
	c.Code = a.bytes()
	c.UsesExt = true
	c.Gas = 400000 // calibration limit
	pickGas(c, r, true)
	if c.Gas > 1000000 { // a gas-burning callee with 5,000,000 gas takes seconds under load: not a finding
		c.Gas = 1000000
	}
	return c
}

func init() { VMGenerators["calls"] = GenCalls }
