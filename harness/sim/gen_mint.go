package sim

// Profile "mint": the split of the block provision (C01, C02, C08; Model/Mint.lean).
//
// A shield or staking history is run first (quietly) to reach a state with a community pool, stake-for-shield purchases,
// fees waiting in the fee collector and so on.  On that state, in cache contexts that are thrown away afterwards, the
// community pool, the global stake-for-shield pool and the mint parameters are set to values drawn around the boundaries
// (empty, tiny, a third, nearly everything, more than the supply), and the REAL mint.BeginBlocker is called — alone, so that
// what it does is not mixed with the distribution module's begin-blocker.  One line per call: the inputs it read, the
// balances of the four module accounts, the supply, the community pool and the shield module's block service fees before
// and after, and whether the call returned or panicked.  The Lean driver runs `Mint.beginBlock` on the same input.

import (
	"math/rand"

	sdk "github.com/cosmos/cosmos-sdk/types"
	authtypes "github.com/cosmos/cosmos-sdk/x/auth/types"
	distrtypes "github.com/cosmos/cosmos-sdk/x/distribution/types"
	minttypes "github.com/cosmos/cosmos-sdk/x/mint/types"

	"github.com/certikfoundation/shentu/x/mint"
	shieldtypes "github.com/certikfoundation/shentu/x/shield/types"
)

func init() {
	Profiles["mint"] = Profile{Mods: nil, Run: MintProfile}
}

func mintRandInt(rng *rand.Rand, max sdk.Int) sdk.Int {
	if !max.IsPositive() {
		return sdk.ZeroInt()
	}
	if max.IsInt64() {
		return sdk.NewInt(rng.Int63n(max.Int64() + 1))
	}
	// very large bound: a random 18-digit fraction of it
	return max.ToDec().Mul(sdk.NewDecWithPrec(rng.Int63n(1000000000000000000), 18)).TruncateInt()
}

func MintProfile(seed int64, out *Recorder, nOps int) *Chain {
	rng := newRng(seed ^ 0x3117)
	quiet := NewRecorder(nopWriter{}, nil)
	base := "shield"
	if seed%2 == 1 {
		base = "staking"
	}
	a := Profiles[base].Run(seed, quiet, nOps)
	out.Reset()
	names := D{}
	for _, ac := range a.Accts {
		names[ac.Name] = Hex(ac.Addr)
	}
	for _, mn := range []string{authtypes.FeeCollectorName, distrtypes.ModuleName, minttypes.ModuleName, shieldtypes.ModuleName} {
		names["mod."+mn] = Hex(authtypes.NewModuleAddress(mn))
	}
	out.emit(D{"k": "genesis", "seed": seed, "h": a.Cfg.H0, "t": nsStr(a.Cfg.T0), "names": names, "profile": "mint", "base": base, "st": D{}})
	halted := a.Halted
	a.Halted = "" // a halt of the base history is C08's matter
	if halted != "" || a.InBlock {
		return a
	}
	ctx0 := a.Ctx()
	mk := a.App.VerifMintKeeper()
	dk := a.App.VerifDistrKeeper()
	sk := a.App.VerifShieldKeeper()
	bk := a.App.VerifBankKeeper()
	mods := []string{minttypes.ModuleName, authtypes.FeeCollectorName, distrtypes.ModuleName, shieldtypes.ModuleName}
	bals := func(ctx sdk.Context) D {
		m := D{}
		for _, n := range mods {
			m[n] = CoinsJ(bk.GetAllBalances(ctx, authtypes.NewModuleAddress(n)))
		}
		return m
	}
	trials := 8 + rng.Intn(8)
	for trial := 0; trial < trials; trial++ {
		ctx, _ := ctx0.CacheContext()
		supply := bk.GetSupply(ctx).GetTotal().AmountOf(Bond)
		how := D{}
		// the community pool
		fp := dk.GetFeePool(ctx)
		switch rng.Intn(8) {
		case 0: // as the history left it
			how["cp"] = "as_is"
		case 1: // empty
			fp.CommunityPool = sdk.DecCoins{}
			how["cp"] = "empty"
		case 2: // only other denominations
			fp.CommunityPool = sdk.NewDecCoins(sdk.NewDecCoinFromDec("aaa", sdk.NewDecWithPrec(rng.Int63n(1000000000)+1, 3)), sdk.NewDecCoinFromDec("zzz", sdk.NewDec(rng.Int63n(1000)+1)))
			how["cp"] = "other_denoms"
		case 3: // a fraction with 18 digits
			amt := mintRandInt(rng, supply).ToDec().Add(sdk.NewDecWithPrec(rng.Int63n(1000000000000000000), 18))
			fp.CommunityPool = sdk.NewDecCoins(sdk.NewDecCoinFromDec("aaa", sdk.NewDec(5)), sdk.NewDecCoinFromDec(Bond, amt))
			how["cp"] = "fraction"
		case 4: // nearly the whole supply
			fp.CommunityPool = sdk.NewDecCoins(sdk.NewDecCoinFromDec(Bond, supply.ToDec().Sub(sdk.NewDecWithPrec(rng.Int63n(3000000000000000000), 18))))
			how["cp"] = "nearly_supply"
		case 5: // more than the supply (not reachable: the model and the code must agree that the split cannot be made)
			fp.CommunityPool = sdk.NewDecCoins(sdk.NewDecCoinFromDec(Bond, supply.ToDec().MulInt64(int64(1+rng.Intn(3))).Add(sdk.NewDec(rng.Int63n(1000000)))))
			how["cp"] = "above_supply"
		case 6: // tiny
			fp.CommunityPool = sdk.NewDecCoins(sdk.NewDecCoinFromDec(Bond, sdk.NewDecWithPrec(rng.Int63n(5000000000000000000)+1, 18)))
			how["cp"] = "tiny"
		default:
			fp.CommunityPool = sdk.NewDecCoins(sdk.NewDecCoinFromDec(Bond, mintRandInt(rng, supply).ToDec()))
			how["cp"] = "uniform"
		}
		dk.SetFeePool(ctx, fp)
		// the global stake-for-shield pool
		switch rng.Intn(7) {
		case 0:
			how["pool"] = "as_is"
		case 1:
			sk.SetGlobalShieldStakingPool(ctx, sdk.ZeroInt())
			how["pool"] = "zero"
		case 2:
			sk.SetGlobalShieldStakingPool(ctx, sdk.NewInt(1+rng.Int63n(3)))
			how["pool"] = "tiny"
		case 3: // what is left of the supply next to the community pool, give or take a unit
			rest := supply.Sub(fp.CommunityPool.AmountOf(Bond).TruncateInt()).AddRaw(int64(rng.Intn(5)) - 2)
			if rest.IsNegative() {
				rest = sdk.ZeroInt()
			}
			sk.SetGlobalShieldStakingPool(ctx, rest)
			how["pool"] = "rest_of_supply"
		case 4:
			sk.SetGlobalShieldStakingPool(ctx, supply.MulRaw(int64(1+rng.Intn(2))).AddRaw(rng.Int63n(1000)))
			how["pool"] = "above_supply"
		default:
			sk.SetGlobalShieldStakingPool(ctx, mintRandInt(rng, supply))
			how["pool"] = "uniform"
		}
		// the size of the provision: blocks per year from 1 (a year's inflation in one block) to the default
		params := mk.GetParams(ctx)
		switch rng.Intn(5) {
		case 0:
			how["params"] = "as_is"
		case 1:
			params.BlocksPerYear = 1
			how["params"] = "one_block_per_year"
		case 2:
			params.InflationMax = sdk.ZeroDec()
			params.InflationMin = sdk.ZeroDec()
			params.InflationRateChange = sdk.ZeroDec()
			m := mk.GetMinter(ctx)
			m.Inflation = sdk.ZeroDec()
			mk.SetMinter(ctx, m)
			how["params"] = "no_inflation"
		default:
			params.BlocksPerYear = uint64(1 + rng.Int63n(10000000))
			how["params"] = "random_blocks_per_year"
		}
		mk.SetParams(ctx, params)

		cpPre := dk.GetFeePool(ctx).CommunityPool
		poolPre := sk.GetGlobalShieldStakingPool(ctx)
		pre := bals(ctx)
		feesPre := sk.GetBlockServiceFees(ctx)
		outcome := "ok"
		if pi := catch(func() { mint.BeginBlocker(ctx, mk) }); pi != nil {
			outcome = "panic: " + trunc(pi.Value, 120)
		}
		supplyPost := bk.GetSupply(ctx).GetTotal()
		line := D{"k": "mint", "trial": trial, "how": how, "bond": Bond,
			"supply_pre": CoinsJ(sdk.NewCoins(sdk.NewCoin(Bond, supply))), "supply_all_pre": CoinsJ(bk.GetSupply(ctx0).GetTotal()), "supply_post": CoinsJ(supplyPost),
			"cp_pre": decCoinsJ(cpPre), "cp_post": decCoinsJ(dk.GetFeePool(ctx).CommunityPool),
			"pool": poolPre.String(), "bal_pre": pre, "bal_post": bals(ctx),
			"block_fees_pre": decCoinsJ(feesPre.Native), "block_fees_post": decCoinsJ(sk.GetBlockServiceFees(ctx).Native),
			"blocks_per_year": params.BlocksPerYear, "annual_provisions": mk.GetMinter(ctx).AnnualProvisions.String(),
			"outcome": outcome}
		out.emit(line)
	}
	return a
}
