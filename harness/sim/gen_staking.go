package sim

import (
	"fmt"
	distrtypes "github.com/cosmos/cosmos-sdk/x/distribution/types"
	"time"

	"github.com/cosmos/cosmos-sdk/crypto/keys/ed25519"
	sdk "github.com/cosmos/cosmos-sdk/types"
	slashingtypes "github.com/cosmos/cosmos-sdk/x/slashing/types"
	stakingtypes "github.com/cosmos/cosmos-sdk/x/staking/types"

	"github.com/certikfoundation/shentu/app"
	appparams "github.com/certikfoundation/shentu/app/params"
)

// StakingProfile generates histories for C09: validators created with too little / just enough / plenty of stake while
// the set is full or not, delegations and undelegations that change the ranking, self-undelegations that jail, unjailing,
// redelegations, and block-time gaps around the unbonding time.
func StakingProfile(seed int64, out *Recorder, nOps int) *Chain {
	rng := newRng(seed)
	unbonding := time.Duration(20+rng.Intn(40)) * time.Second
	nVal := 1 + rng.Intn(3)
	maxVals := uint32(nVal + rng.Intn(3)) // never fewer seats than genesis validators: a genesis file is consistent
	stakes := [][]int64{{1000000000, 1000000000, 1000000000}, {3000000000, 1000000000, 500000000}, {5000000, 7000000, 6000000}}[rng.Intn(3)]
	t0 := time.Unix(1600000000, 0).UTC()
	cfg := GenCfg{Seed: seed, H0: 10, T0: t0, NAcc: 10, NVal: nVal, NCert: 1, AdminIdx: 9, Balance: 1000000000000, ValStake: stakes,
		Patch: func(enc appparams.EncodingConfig, gs app.GenesisState) {
			var stg stakingtypes.GenesisState
			enc.Marshaler.MustUnmarshalJSON(gs[stakingtypes.ModuleName], &stg)
			stg.Params.UnbondingTime = unbonding
			stg.Params.MaxValidators = maxVals
			gs[stakingtypes.ModuleName] = enc.Marshaler.MustMarshalJSON(&stg)
		}}
	c := NewChain(cfg, out)
	c.Rng = rng
	out.Genesis(c, D{"profile": "staking"})
	if !c.Advance(2 * time.Second) {
		return c
	}
	sk := c.App.VerifStakingKeeper()
	isVal := map[int]bool{}
	for i := 0; i < nVal; i++ {
		isVal[i] = true
	}
	amounts := []int64{1, 999999, 1000000, 1000001, 4000000, 6500000, 500000000, 1000000000, 2500000000}
	for i := 0; i < nOps && c.Halted == ""; i++ {
		// somebody funds the community pool, now and then with more than is bonded: the mint module splits every block's
		// provision by ratios of such amounts (own random stream)
		if r2 := newRng(seed*139 + int64(i)); r2.Intn(50) == 0 {
			from := r2.Intn(cfg.NAcc)
			amt := []int64{1000000, 3000000000, 20000000000, 100000000000}[r2.Intn(4)]
			c.Do(from, []D{{"t": "distr.fundCommunityPool", "from": Hex(c.Accts[from].Addr), "amt": amt}},
				distrtypes.NewMsgFundCommunityPool(c.Coins(amt, Bond), c.Accts[from].Addr))
		}
		ctx := c.Ctx()
		vals := sk.GetAllValidators(ctx)
		who := rng.Intn(cfg.NAcc)
		ac := c.Accts[who]
		r := rng.Intn(100)
		switch {
		case r < 20:
			dts := []time.Duration{time.Second, 3 * time.Second, unbonding / 2, unbonding - time.Second, unbonding, unbonding + time.Second, 3 * unbonding}
			if !c.Advance(dts[rng.Intn(len(dts))]) {
				return c
			}
		case r < 32: // create a validator
			cand := -1
			for j := 0; j < cfg.NAcc; j++ {
				k := (who + j) % cfg.NAcc
				if !isVal[k] {
					cand = k
					break
				}
			}
			if cand < 0 || rng.Intn(8) == 0 {
				cand = who // sometimes an operator that already has a validator
			}
			amt := amounts[rng.Intn(len(amounts))]
			minSelf := []int64{1, amt, amt / 2, 1000000}[rng.Intn(4)]
			if minSelf < 1 {
				minSelf = 1
			}
			vp := ed25519.GenPrivKeyFromSecret([]byte(fmt.Sprintf("verif-newval-%d-%d", seed, cand)))
			msg, err := stakingtypes.NewMsgCreateValidator(sdk.ValAddress(c.Accts[cand].Addr), vp.PubKey(), sdk.NewInt64Coin(Bond, amt),
				stakingtypes.Description{Moniker: fmt.Sprintf("n%d", cand)}, stakingtypes.NewCommissionRates(sdk.ZeroDec(), sdk.ZeroDec(), sdk.ZeroDec()), sdk.NewInt(minSelf))
			if err != nil {
				panic(err)
			}
			res := c.Do(cand, []D{{"t": "staking.createValidator", "op": Hex(c.Accts[cand].Addr), "pk": Hex(vp.PubKey().Bytes()), "amt": amt, "minself": minSelf}}, msg)
			if res.Code == 0 {
				isVal[cand] = true
			}
		case r < 55: // delegate
			if len(vals) == 0 {
				continue
			}
			v := vals[rng.Intn(len(vals))]
			amt := amounts[rng.Intn(len(amounts))]
			c.Do(who, []D{{"t": "staking.delegate", "del": Hex(ac.Addr), "val": Hex(v.GetOperator()), "amt": amt}},
				stakingtypes.NewMsgDelegate(ac.Addr, v.GetOperator(), sdk.NewInt64Coin(Bond, amt)))
		case r < 78: // undelegate: mostly from an existing delegation, often the operator's own
			dels := sk.GetAllDelegations(ctx)
			if len(dels) == 0 {
				continue
			}
			d := dels[rng.Intn(len(dels))]
			da, _ := sdk.AccAddressFromBech32(d.DelegatorAddress)
			va, _ := sdk.ValAddressFromBech32(d.ValidatorAddress)
			signer := c.idxOf(da, who)
			val, _ := sk.GetValidator(ctx, va)
			tokens := val.TokensFromShares(d.Shares).TruncateInt64()
			amt := []int64{tokens, tokens / 2, tokens - 1, 1, 1000000, tokens + 1}[rng.Intn(6)]
			if amt <= 0 {
				amt = 1
			}
			c.Do(signer, []D{{"t": "staking.undelegate", "del": Hex(da), "val": Hex(va), "amt": amt}},
				stakingtypes.NewMsgUndelegate(da, va, sdk.NewInt64Coin(Bond, amt)))
		case r < 90: // redelegate
			dels := sk.GetAllDelegations(ctx)
			if len(dels) == 0 || len(vals) < 2 {
				continue
			}
			d := dels[rng.Intn(len(dels))]
			da, _ := sdk.AccAddressFromBech32(d.DelegatorAddress)
			va, _ := sdk.ValAddressFromBech32(d.ValidatorAddress)
			dst := vals[rng.Intn(len(vals))].GetOperator()
			signer := c.idxOf(da, who)
			val, _ := sk.GetValidator(ctx, va)
			tokens := val.TokensFromShares(d.Shares).TruncateInt64()
			amt := []int64{tokens, tokens / 2, 1000000}[rng.Intn(3)]
			if amt <= 0 {
				amt = 1
			}
			c.Do(signer, []D{{"t": "staking.redelegate", "del": Hex(da), "src": Hex(va), "dst": Hex(dst), "amt": amt}},
				stakingtypes.NewMsgBeginRedelegate(da, va, dst, sdk.NewInt64Coin(Bond, amt)))
		default: // unjail
			var jailed []stakingtypes.Validator
			for _, v := range vals {
				if v.Jailed {
					jailed = append(jailed, v)
				}
			}
			if len(jailed) == 0 {
				continue
			}
			v := jailed[rng.Intn(len(jailed))]
			signer := c.idxOf(sdk.AccAddress(v.GetOperator()), who)
			c.Do(signer, []D{{"t": "slashing.unjail", "val": Hex(v.GetOperator())}}, slashingtypes.NewMsgUnjail(v.GetOperator()))
		}
	}
	for i := 0; i < 3 && c.Halted == ""; i++ {
		if !c.Advance(unbonding) {
			break
		}
	}
	if c.Halted == "" && c.InBlock {
		c.End()
	}
	return c
}
