#!/bin/bash
# run from the framework root; usage: harness/vm_bigrun.sh <profile> <seed-from> <seed-to> <n-per-seed>
p=$1
for s in $(seq $2 $3); do
  ( harness/bin/vmrun -profile $p -seed $s -n $4 -timeout 2s -out work/big_${p}_$s.jsonl 2>/dev/null; lean/.lake/build/bin/vmdriver < work/big_${p}_$s.jsonl > work/big_${p}_$s.out ) &
done
wait
cat work/big_${p}_*.out | grep "^STAT" | awk '{a[$2]+=$3} END{for(k in a) print k, a[k]}' | sort > work/big_${p}.stats
grep -h "^FINDING" work/big_${p}_*.out > work/big_${p}.findings
