// evmdiff runs single arithmetic instructions on the REAL CVM interpreter (vm/contract.go) for corner-case and
// random operands and prints one line per run:  OP w0 w1 [w2] RESULT   (decimal words; RESULT = ERR on an error).
// lean/Drivers/EVMDiff.lean replays the lines against the generated definitions Shentu.Gen.EVM.op_*; this
// validates the hand-written library model lean/Shentu/EVM/BigOps.lean.
package main

import (
	"fmt"
	"math/big"
	"math/rand"
	"time"

	"github.com/certikfoundation/shentu/vm"
	"github.com/hyperledger/burrow/acm/acmstate"
	"github.com/hyperledger/burrow/execution/engine"
	"github.com/hyperledger/burrow/execution/evm/asm"
	"github.com/hyperledger/burrow/execution/exec"
)

type blockchain struct{}

func (*blockchain) LastBlockHeight() uint64          { return 1 }
func (*blockchain) LastBlockTime() time.Time         { return time.Unix(0, 0) }
func (*blockchain) BlockHash(uint64) ([]byte, error) { return make([]byte, 32), nil }
func (*blockchain) ChainID() string                  { return "evmdiff" }

var ops = []struct {
	name  string
	op    asm.OpCode
	arity int
}{{"ADD", asm.ADD, 2}, {"MUL", asm.MUL, 2}, {"SUB", asm.SUB, 2}, {"DIV", asm.DIV, 2}, {"SDIV", asm.SDIV, 2}, {"MOD", asm.MOD, 2},
	{"SMOD", asm.SMOD, 2}, {"ADDMOD", asm.ADDMOD, 3}, {"MULMOD", asm.MULMOD, 3}, {"EXP", asm.EXP, 2}, {"SIGNEXTEND", asm.SIGNEXTEND, 2},
	{"LT", asm.LT, 2}, {"GT", asm.GT, 2}, {"SLT", asm.SLT, 2}, {"SGT", asm.SGT, 2}, {"EQ", asm.EQ, 2}, {"ISZERO", asm.ISZERO, 1},
	{"AND", asm.AND, 2}, {"OR", asm.OR, 2}, {"XOR", asm.XOR, 2}, {"NOT", asm.NOT, 1}, {"BYTE", asm.BYTE, 2}, {"SHL", asm.SHL, 2},
	{"SHR", asm.SHR, 2}, {"SAR", asm.SAR, 2}}

func pow2(n uint) *big.Int { return new(big.Int).Lsh(big.NewInt(1), n) }

func main() {
	rng := rand.New(rand.NewSource(16))
	var pool []*big.Int
	for _, k := range []int64{0, 1, 2, 3, 7, 8, 30, 31, 32, 33, 127, 128, 255, 256, 257, 0x7fff, 0x8000, 0xffff} {
		pool = append(pool, big.NewInt(k))
	}
	for _, n := range []uint{63, 64, 128, 248, 255, 256} {
		p := pow2(n)
		for _, d := range []int64{-2, -1, 0, 1, 5} {
			v := new(big.Int).Add(p, big.NewInt(d))
			if v.BitLen() <= 256 {
				pool = append(pool, v)
			}
		}
	}
	for i := 0; i < 12; i++ {
		v := new(big.Int).Rand(rng, pow2(256))
		if i%3 == 1 {
			v.Or(v, pow2(255))
		}
		if i%4 == 3 {
			v.Rsh(v, uint(rng.Intn(250)))
		}
		pool = append(pool, v)
	}
	cvm := vm.NewCVM(engine.Options{})
	st := acmstate.NewMemoryState()
	a1, a2 := engine.AddressFromName("1"), engine.AddressFromName("2")
	engine.CreateAccount(st, a1)
	engine.CreateAccount(st, a2)
	run := func(name string, op asm.OpCode, ws ...*big.Int) {
		var code []byte
		for i := len(ws) - 1; i >= 0; i-- {
			code = append(code, byte(asm.PUSH32))
			code = append(code, ws[i].FillBytes(make([]byte, 32))...)
		}
		code = append(code, byte(op), byte(asm.PUSH1), 0, byte(asm.MSTORE), byte(asm.PUSH1), 32, byte(asm.PUSH1), 0, byte(asm.RETURN))
		res := "ERR"
		func() {
			defer func() { recover() }()
			out, err := cvm.Execute(st, new(blockchain), exec.NewNoopEventSink(),
				engine.CallParams{Caller: a1, Callee: a2, Gas: big.NewInt(1000000)}, code)
			if err == nil && len(out) == 32 {
				res = new(big.Int).SetBytes(out).String()
			}
		}()
		fmt.Print(name)
		for _, w := range ws {
			fmt.Print(" ", w)
		}
		fmt.Println(" " + res)
	}
	for _, o := range ops {
		switch o.arity {
		case 1:
			for _, a := range pool {
				run(o.name, o.op, a)
			}
		case 2:
			for _, a := range pool {
				for _, b := range pool {
					// (before fix 4014336 the interpreter computed the full power a**b: large exponents did not terminate;
					// the Lean replay still skips exponents > 4096, its model evaluates the power before reducing)
					run(o.name, o.op, a, b)
				}
			}
		case 3:
			for i := 0; i < 4000; i++ {
				run(o.name, o.op, pool[rng.Intn(len(pool))], pool[rng.Intn(len(pool))], pool[rng.Intn(len(pool))])
			}
		}
	}
}
