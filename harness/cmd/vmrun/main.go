// vmrun generates EVM programs with a profile, runs them on the real interpreter
// (/repo/vm) and writes one JSON line per case to -out.
//
// The process that does the work is a child of the same binary (-worker): a fatal
// runtime error (out of memory thrown by the Go runtime cannot be recovered) or a
// hang kills only the child; the supervisor records that case as "fatal"/"timeout"
// and restarts the child at the next case.
package main

import (
	"bufio"
	"encoding/hex"
	"flag"
	"fmt"
	"os"
	"os/exec"
	"strconv"
	"strings"
	"time"

	"verifharness/sim"
)

const exitTimeout = 97

func caseID(seed int64, i int, histseed int64) int64 {
	if histseed != 0 {
		return histseed
	}
	return seed*1000003 + int64(i)
}

func worker(profile string, seed, histseed int64, from, to int, out string, timeout time.Duration) {
	gen := sim.VMGenerators[profile]
	f, err := os.OpenFile(out, os.O_APPEND|os.O_WRONLY|os.O_CREATE, 0644)
	if err != nil {
		panic(err)
	}
	w := bufio.NewWriterSize(f, 1<<16)
	for i := from; i < to; i++ {
		id := caseID(seed, i, histseed)
		timer := time.AfterFunc(timeout, func() {
			fmt.Fprintf(os.Stderr, "vmrun: case %d exceeded %v\n", id, timeout)
			os.Exit(exitTimeout)
		})
		c := gen(id)
		r := sim.RunVMCase(c)
		timer.Stop()
		w.WriteString(sim.VMLine(c, &r))
		w.Flush() // the supervisor finds the case that killed us by counting lines
	}
	w.Flush()
	f.Close()
}

func countLines(path string) int {
	f, err := os.Open(path)
	if err != nil {
		return 0
	}
	defer f.Close()
	n := 0
	rd := bufio.NewReaderSize(f, 1<<20)
	for {
		_, err := rd.ReadString('\n')
		if err != nil {
			break
		}
		n++
	}
	return n
}

func main() {
	profile := flag.String("profile", "ops", "generator profile: ops | structured | raw")
	seed := flag.Int64("seed", 1, "PRNG seed")
	n := flag.Int("n", 1000, "number of cases")
	outp := flag.String("out", "vm.jsonl", "trace file")
	histseed := flag.Int64("histseed", 0, "run exactly the case with this id (replay)")
	timeout := flag.Duration("timeout", 3*time.Second, "per-case watchdog")
	codeHex := flag.String("code", "", "run exactly this program (hex) instead of a generated one; with -input, -gas, -value")
	inputHex := flag.String("input", "", "call data (hex) for -code")
	gasFlag := flag.Int64("gas", 100000, "gas limit for -code")
	valueFlag := flag.Int64("value", 0, "call value for -code")
	isWorker := flag.Bool("worker", false, "internal")
	from := flag.Int("from", 0, "internal")
	flag.Parse()
	if *profile == "keccak" { // reference hashes for the Lean Keccak-256
		f, err := os.Create(*outp)
		if err != nil {
			panic(err)
		}
		sim.WriteKeccakVectors(f, *seed, *n)
		f.Close()
		return
	}
	if *codeHex != "" {
		code, err1 := hex.DecodeString(*codeHex)
		input, err2 := hex.DecodeString(*inputHex)
		if err1 != nil || err2 != nil {
			fmt.Fprintln(os.Stderr, "bad hex")
			os.Exit(2)
		}
		sim.VMGenerators["custom"] = func(id int64) *sim.VMCase {
			return &sim.VMCase{ID: id, Profile: "custom", Code: code, Input: input, Gas: *gasFlag, Value: *valueFlag, CallerBal: 1000,
				Height: 1000, Time: 1600000000, ChainID: "shentu-2.2", Heavy: true}
		}
		*profile = "custom"
		*n = 1
	}
	if _, ok := sim.VMGenerators[*profile]; !ok {
		fmt.Fprintln(os.Stderr, "unknown profile", *profile)
		os.Exit(2)
	}
	if *histseed != 0 {
		*n = 1
	}
	if *isWorker {
		worker(*profile, *seed, *histseed, *from, *n, *outp, *timeout)
		return
	}
	if *outp == "-" {
		fmt.Fprintln(os.Stderr, "vmrun needs a file for -out")
		os.Exit(2)
	}
	os.Remove(*outp)
	self, _ := os.Executable()
	start, died, slow := 0, 0, 0
	for start < *n {
		args := []string{"-worker", "-code", *codeHex, "-input", *inputHex, "-gas", strconv.FormatInt(*gasFlag, 10), "-value", strconv.FormatInt(*valueFlag, 10), "-profile", *profile, "-seed", strconv.FormatInt(*seed, 10), "-n", strconv.Itoa(*n),
			"-out", *outp, "-from", strconv.Itoa(start), "-timeout", timeout.String(), "-histseed", strconv.FormatInt(*histseed, 10)}
		cmd := exec.Command(self, args...)
		var stderr strings.Builder
		cmd.Stderr = &stderr
		err := cmd.Run()
		done := countLines(*outp)
		if err == nil && done >= *n {
			break
		}
		// the child died while running case number `done`
		died++
		outcome := "fatal"
		if ee, ok := err.(*exec.ExitError); ok && ee.ExitCode() == exitTimeout {
			outcome = "timeout"
		}
		if outcome == "timeout" {
			// The watchdog measures wall-clock time: on a loaded machine a harmless case can exceed it.  The case is run again,
			// alone, with ten times the budget; only a case that exceeds that as well is reported as not finishing.
			retryOut := *outp + ".retry"
			os.Remove(retryOut)
			rargs := append([]string{}, args...)
			for k := range rargs {
				switch rargs[k] {
				case "-n":
					rargs[k+1] = strconv.Itoa(done + 1)
				case "-from":
					rargs[k+1] = strconv.Itoa(done)
				case "-out":
					rargs[k+1] = retryOut
				case "-timeout":
					rargs[k+1] = (10 * *timeout).String()
				}
			}
			rcmd := exec.Command(self, rargs...)
			if rerr := rcmd.Run(); rerr == nil && countLines(retryOut) == 1 {
				if line, err := os.ReadFile(retryOut); err == nil {
					f, _ := os.OpenFile(*outp, os.O_APPEND|os.O_WRONLY|os.O_CREATE, 0644)
					f.Write(line)
					f.Close()
					os.Remove(retryOut)
					slow++
					start = done + 1
					continue
				}
			}
			os.Remove(retryOut)
		}
		id := caseID(*seed, done, *histseed)
		sim.VMNoCalibrate = true // regenerate without executing anything (the gas limit shown is the calibration limit)
		c := sim.VMGenerators[*profile](id)
		msg := stderr.String()
		if len(msg) > 300 {
			msg = msg[:300]
		}
		r := sim.VMResult{Outcome: outcome, GasLeft: "-1", Detail: msg}
		f, _ := os.OpenFile(*outp, os.O_APPEND|os.O_WRONLY|os.O_CREATE, 0644)
		f.WriteString(sim.VMLine(c, &r))
		f.Close()
		start = done + 1
	}
	fmt.Fprintf(os.Stderr, "vmrun: %d cases, profile %s, worker restarts %d (of which %d finished when run again alone with ten times the watchdog)\n", *n, *profile, died, slow)
}
