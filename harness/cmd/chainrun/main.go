// chainrun generates histories with a profile, runs them on the real
// application and writes the trace (JSON lines) to -out.
package main

import (
	"flag"
	"fmt"
	"os"

	"verifharness/sim"
)

func main() {
	profile := flag.String("profile", "oracle", "generator profile")
	seed := flag.Int64("seed", 1, "PRNG seed")
	n := flag.Int("n", 10, "number of histories")
	ops := flag.Int("ops", 60, "operations per history")
	outp := flag.String("out", "-", "trace file")
	histseed := flag.Int64("histseed", 0, "run exactly one history with this history seed (replay)")
	flag.Parse()
	w := os.Stdout
	if *outp != "-" {
		f, err := os.Create(*outp)
		if err != nil {
			panic(err)
		}
		defer f.Close()
		w = f
	}
	p, ok := sim.Profiles[*profile]
	if !ok {
		fmt.Fprintln(os.Stderr, "unknown profile", *profile)
		os.Exit(2)
	}
	rec := sim.NewRecorder(w, p.Mods)
	if *histseed != 0 {
		c := p.Run(*histseed, rec, *ops)
		rec.Note(sim.D{"k": "endhistory", "seed": *histseed, "halted": c.Halted})
		rec.Flush()
		return
	}
	for i := 0; i < *n; i++ {
		hseed := *seed*1000003 + int64(i)
		c := p.Run(hseed, rec, *ops)
		rec.Note(sim.D{"k": "endhistory", "seed": hseed, "halted": c.Halted})
		rec.Flush()
	}
}
