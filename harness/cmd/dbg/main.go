package main

import (
	"fmt"
	"time"

	sdk "github.com/cosmos/cosmos-sdk/types"
	stakingtypes "github.com/cosmos/cosmos-sdk/x/staking/types"

	bankx "github.com/certikfoundation/shentu/x/bank/types"
	"verifharness/sim"
)

func main() {
	cfg := sim.GenCfg{Seed: 1, H0: 5, T0: time.Unix(1600000000, 0).UTC(), NAcc: 4, NVal: 1, NCert: 1, AdminIdx: 3, Balance: 1000000000000, ValStake: []int64{1000000000}}
	c := sim.NewChain(cfg, nil)
	m := c.AddAcct("m0")
	c.Advance(5 * time.Second)
	r := c.Deliver(1, 2000000, 5000, bankx.NewMsgLockedSend(c.Accts[1].Addr, c.Accts[m].Addr, c.Accts[2].Addr.String(), c.Coins(5000000, "uctk")))
	fmt.Println(r.Code, r.Log)
	r = c.Deliver(1, 2000000, 5000, bankx.NewMsgLockedSend(c.Accts[1].Addr, c.Accts[m].Addr, "", c.Coins(100000, "uctk")))
	fmt.Println(r.Code, r.Log)
	fmt.Println(c.App.VerifAccountKeeper().GetAccount(c.Ctx(), c.Accts[m].Addr))
	r = c.Deliver(m, 2000000, 0, stakingtypes.NewMsgDelegate(c.Accts[m].Addr, sdk.ValAddress(c.Accts[0].Addr), sdk.NewInt64Coin("uctk", 70000)))
	fmt.Println(r.Code, r.Log)
	fmt.Println(c.App.VerifAccountKeeper().GetAccount(c.Ctx(), c.Accts[m].Addr))
	fmt.Println(c.App.VerifBankKeeper().GetAllBalances(c.Ctx(), c.Accts[m].Addr), c.App.VerifBankKeeper().LockedCoins(c.Ctx(), c.Accts[m].Addr))
}
