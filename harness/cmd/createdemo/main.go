//go:build verif

// createdemo shows, on the REAL application (x/cvm message path, ante handler, keeper), the chain-level consequence of the
// recorded finding C16-create_address_ignores_sender: x/cvm/keeper.Tx hands the CVM the sender's account sequence number as
// its nonce and nothing else of the sender, and CREATE derives sha256(creator, nonce, counter).  Two senders with the same
// sequence number who call the same factory make it derive the same address: the second transaction fails.
//
//	go run -tags verif ./cmd/createdemo
package main

import (
	"bufio"
	"fmt"
	"io"
	"time"

	sdk "github.com/cosmos/cosmos-sdk/types"

	cvmtypes "github.com/certikfoundation/shentu/x/cvm/types"

	"verifharness/sim"
)

func main() {
	out := sim.NewRecorder(bufio.NewWriter(io.Discard), nil)
	cfg := sim.GenCfg{Seed: 1, H0: 5, T0: time.Unix(1600000000, 0).UTC(), NAcc: 8, NVal: 2, NCert: 1, AdminIdx: 7,
		Balance: 1000000000000, ValStake: []int64{1000000000, 2000000000}}
	c := sim.NewChain(cfg, out)
	if !c.Advance(5 * time.Second) {
		panic("begin block")
	}
	// factory runtime: MSTORE8(0, 0x00); CREATE(0, 0, 1) (init code 00: deploys nothing, succeeds); MSTORE(0, result); RETURN(0, 32)
	factory := []byte{0x60, 0x00, 0x60, 0x00, 0x53, 0x60, 0x01, 0x60, 0x00, 0x60, 0x00, 0xf0, 0x60, 0x00, 0x52, 0x60, 0x20, 0x60, 0x00, 0xf3}
	n := byte(len(factory))
	init := append([]byte{0x60, n, 0x60, 0x0c, 0x60, 0x00, 0x39, 0x60, n, 0x60, 0x00, 0xf3}, factory...)
	dep := cvmtypes.NewMsgDeploy(c.Accts[2].Addr.String(), 0, init, "", nil, false, false)
	res := c.Deliver(2, 3000000, sim.DefaultFee, &dep)
	if res.Code != 0 {
		panic("deploy failed: " + res.Log)
	}
	var md sdk.TxMsgData
	var resp cvmtypes.MsgDeployResponse
	if md.Unmarshal(res.Data) != nil || len(md.Data) == 0 || resp.Unmarshal(md.Data[0].Data) != nil {
		panic("no deploy response")
	}
	factoryAddr := sdk.AccAddress(resp.Result)
	fmt.Printf("factory deployed at %X\n", resp.Result)
	call := func(who int, what string) {
		m := cvmtypes.NewMsgCall(c.Accts[who].Addr.String(), factoryAddr.String(), 0, nil)
		r := c.Deliver(who, 3000000, sim.DefaultFee, &m)
		ret := ""
		if r.Code == 0 {
			var d sdk.TxMsgData
			var cr cvmtypes.MsgCallResponse
			if d.Unmarshal(r.Data) == nil && len(d.Data) > 0 && cr.Unmarshal(d.Data[0].Data) == nil {
				ret = fmt.Sprintf("%X", cr.Result)
			}
		}
		fmt.Printf("account %d (%s): code=%d ret=%s log=%.120s\n", who, what, r.Code, ret, r.Log)
	}
	// accounts 3 and 4 have sent nothing yet: both sign with sequence number 0
	call(3, "its first transaction")
	call(4, "its first transaction: same sequence number as the call before")
	call(3, "its second transaction: another sequence number, another address")
}
