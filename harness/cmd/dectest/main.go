package main

import (
	"fmt"
	"math/rand"

	sdk "github.com/cosmos/cosmos-sdk/types"
)

func main() {
	r := rand.New(rand.NewSource(7))
	pick := func() sdk.Dec {
		switch r.Intn(6) {
		case 0:
			return sdk.NewDec(r.Int63n(1000) - 300)
		case 1:
			return sdk.NewDecWithPrec(r.Int63n(1000000)-500000, int64(r.Intn(18)))
		case 2:
			return sdk.NewDecWithPrec(r.Int63()-(1<<62), 18)
		case 3:
			return sdk.NewDecWithPrec(int64(r.Intn(3))*500000000000000000+int64(r.Intn(3))-1, 18)
		case 4:
			return sdk.NewDec(r.Int63n(1 << 40)).Quo(sdk.NewDec(1 + r.Int63n(1<<20)))
		}
		return sdk.NewDecWithPrec(r.Int63n(1<<50), 18)
	}
	for i := 0; i < 20000; i++ {
		a, b := pick(), pick()
		n := r.Int63n(1<<40) - (1 << 20)
		fmt.Printf("%s %s %d %s", a.BigInt(), b.BigInt(), n, a.Mul(b).BigInt())
		if b.IsZero() {
			fmt.Printf(" x x")
		} else {
			fmt.Printf(" %s %s", a.Quo(b).BigInt(), a.QuoTruncate(b).BigInt())
		}
		fmt.Printf(" %s", a.MulInt64(n).BigInt())
		if n == 0 {
			fmt.Printf(" x")
		} else {
			fmt.Printf(" %s", a.QuoInt64(n).BigInt())
		}
		fmt.Printf(" %s %s %s\n", a.TruncateInt(), a.MulTruncate(b).BigInt(), a.RoundInt())
	}
}
